"""C02 registry: constructor generators + independent NumPy reference actions for the linear
operators exported by nifty.cl.

entry = dict(gen=function(I, rng) -> spec, covers=[exported names exercised])
spec  = dict(op=<operator>, desc=<JSON-able config>, nontrivial=bool,
             ref=<fn(ndarray|dict) -> ndarray|dict of the TIMES action, or None>,
             kinds={mode: 'f'|'c'|'fc'}  (dtypes of admissible inputs per mode; default 'fc'),
             rtol / ref_rtol / inv_rtol, cap=<documented capability or None>,
             keep=[(name, array/Field)] constructor arguments that must stay unchanged,
             expect=[(what, got, expected)] declared attributes, cleanup=callable)
"""
import numpy as np

from vf import linops as L
from vf.linops import TIMES, ADJ, INV, ADJINV

REGISTRY = {}
ABSTRACT = {"LinearOperator", "EndomorphicOperator"}
HEAVY = {"JaxLinearOperator"}
# exported *functions* that return linear operators
LINEAR_FUNCTIONS = {"IntegrationOperator", "HarmonicSmoothingOperator", "FuncConvolutionOperator",
                    "ducktape", "Variable", "makeOp", "create_power_operator",
                    "create_harmonic_smoothing_operator", "WienerFilterCurvature"}


class Unavailable(Exception):
    pass


class CtorCrash(Exception):
    def __init__(self, exc, desc):
        self.exc, self.desc = exc, desc


def reg(name, covers=None):
    def deco(fn):
        REGISTRY[name] = dict(gen=fn, covers=covers if covers is not None else [name])
        return fn
    return deco


def construct(desc, fn):
    """run a constructor; any exception is a finding candidate (documented configuration)"""
    try:
        return fn()
    except Exception as e:  # noqa
        raise CtorCrash(e, desc)


# ------------------------------------------------------------------ domains ---
def r3(x):
    return float(np.round(x, 3))


def sp_rg(I, rng, maxn=5, ndim=None, harmonic=None, dist="rand", minn=1):
    nd = int(rng.integers(1, 3)) if ndim is None else ndim
    if nd == 2:
        shape = (int(rng.integers(minn, 4)), int(rng.integers(max(minn, 2), 4)))
    else:
        shape = (int(rng.integers(minn, maxn + 1)),)
    harm = bool(rng.integers(0, 2)) if harmonic is None else harmonic
    if dist == "rand" and rng.integers(0, 4) == 0:
        d = None
        real = tuple(1.0 for _ in shape) if harm else tuple(1.0 / n for n in shape)
    else:
        d = tuple(r3(np.exp(rng.uniform(-1.5, 1.5))) for _ in shape)
        real = d
    s = I.RGSpace(shape, distances=d, harmonic=harm)
    return s, dict(t="RG", shape=shape, dist=d, harmonic=harm, rdist=real,
                   dvol=float(np.prod(real)))


def sp_u(I, rng, maxn=5):
    n = int(rng.integers(1, maxn + 1))
    shp = (n, int(rng.integers(1, 3))) if rng.integers(0, 4) == 0 else (n,)
    return I.UnstructuredDomain(shp), dict(t="U", shape=shp, dvol=None)


def sp_hp(I, rng):
    return I.HPSpace(1), dict(t="HP", shape=(12,), dvol=4 * np.pi / 12)


def sp_gl(I, rng):
    nlat = int(rng.integers(1, 4))
    nlon = int(rng.integers(1, 5))
    _, w = np.polynomial.legendre.leggauss(nlat)
    dv = np.repeat(w * 2 * np.pi / nlon, nlon)
    return I.GLSpace(nlat, nlon), dict(t="GL", shape=(nlat * nlon,), nlat=nlat, nlon=nlon, dvol=dv)


def sp_lm(I, rng):
    lmax = int(rng.integers(0, 4))
    mmax = int(rng.integers(0, lmax + 1)) if rng.integers(0, 2) else lmax
    size = (lmax + 1) + 2 * sum(lmax + 1 - m for m in range(1, mmax + 1))
    return I.LMSpace(lmax, mmax), dict(t="LM", shape=(size,), lmax=lmax, mmax=mmax, dvol=1.0)


def gen_space(I, rng, kinds):
    k = kinds[int(rng.integers(0, len(kinds)))]
    return dict(RG=sp_rg, U=sp_u, HP=sp_hp, GL=sp_gl, LM=sp_lm)[k](I, rng)


def gen_dom(I, rng, nsp=(1, 2, 2, 3), kinds=("RG", "RG", "U", "HP", "GL", "LM"), maxsize=40,
            first=None):
    """DomainTuple + list of per-space info dicts; `first` = (space, info) forced as one entry"""
    for _ in range(200):
        n = int(nsp[int(rng.integers(0, len(nsp)))])
        items = [gen_space(I, rng, kinds) for _ in range(n)]
        if first is not None:
            items[int(rng.integers(0, n))] = first
        dom = I.DomainTuple.make(tuple(s for s, _ in items))
        if 0 < dom.size <= maxsize:
            return dom, [d for _, d in items]
    s, d = sp_rg(I, rng, 3, 1) if first is None else first
    return I.DomainTuple.make(s), [d]


def jd(infos):
    """JSON-able short form of space infos"""
    out = []
    for d in infos:
        e = {k: v for k, v in d.items() if k in ("t", "shape", "dist", "harmonic", "nlat", "nlon",
                                                  "lmax", "mmax")}
        out.append(e)
    return out


def axes_of(infos, i):
    o = sum(len(d["shape"]) for d in infos[:i])
    return tuple(range(o, o + len(infos[i]["shape"])))


def full_shape(infos):
    return tuple(x for d in infos for x in d["shape"])


def weight_array(infos, spaces, power):
    """broadcastable array prod_{i in spaces} dvol_i**power"""
    shp = full_shape(infos)
    w = np.ones([1] * len(shp))
    for i in spaces:
        dv = infos[i]["dvol"]
        ax = axes_of(infos, i)
        if np.isscalar(dv):
            w = w * float(dv) ** power
        else:
            s = [1] * len(shp)
            for a in ax:
                s[a] = shp[a]
            w = w * (np.asarray(dv).reshape(s) ** power)
    return w


def pick_spaces(rng, n, allow_none=True, nonempty=True):
    """random subset of range(n) in one of the documented forms (None / int / tuple)"""
    u = int(rng.integers(0, 4))
    if u == 0 and allow_none:
        return None, tuple(range(n))
    if u == 1:
        i = int(rng.integers(0, n))
        return i, (i,)
    k = int(rng.integers(1 if nonempty else 0, n + 1))
    sub = tuple(sorted(int(x) for x in rng.choice(n, k, replace=False)))
    return sub, sub


def rarr(rng, shape, cplx=False, lo=0.4, hi=2.5):
    v = rng.uniform(lo, hi, shape) * rng.choice([-1.0, 1.0], shape)
    if cplx:
        v = v * np.exp(1j * rng.uniform(0, 2 * np.pi, shape))
    return np.asarray(v)


def gen_mdom(I, rng, keys=("a", "b"), maxsize=8, kinds=("RG", "U", "RG")):
    subs, infos = {}, {}
    for k in keys:
        d, inf = gen_dom(I, rng, nsp=(1, 1, 2), kinds=kinds, maxsize=maxsize)
        subs[k], infos[k] = d, inf
    return I.MultiDomain.make(subs), subs, infos


# ------------------------------------------------- contraction / integration ---
def _contraction(I, rng, integ):
    for _ in range(100):
        dom, infos = gen_dom(I, rng)
        arg, spaces = pick_spaces(rng, len(infos))
        power = 1 if integ else int(rng.choice([0, 0, 1, 2, -1]))
        if power != 0 and any(infos[i]["dvol"] is None for i in spaces):
            continue
        if power == 0:
            infos = [dict(d, dvol=1.0) for d in infos]
        break
    else:
        raise Unavailable("no domain")
    desc = dict(dom=jd(infos), spaces=arg, power=power)
    if integ:
        op = construct(desc, lambda: I.IntegrationOperator(dom, arg))
    elif power == 0 and rng.integers(0, 2):
        op = construct(desc, lambda: I.ContractionOperator(dom, arg))
    else:
        op = construct(desc, lambda: I.ContractionOperator(dom, arg, power))
    w = weight_array(infos, spaces, power)
    sum_axes = tuple(a for i in spaces for a in axes_of(infos, i))
    ref = lambda a: np.sum(np.asarray(a) * w, axis=sum_axes)
    tgt = I.DomainTuple.make(tuple(dom[i] for i in range(len(infos)) if i not in spaces))
    nonuni = any(not np.isscalar(infos[i]["dvol"]) for i in spaces if infos[i]["dvol"] is not None)
    return dict(op=op, desc=desc, ref=ref, cap=3, expect=[("target", op.target, tgt)],
                nontrivial=(len(spaces) < len(infos)) or (power != 0 and nonuni) or power not in (0, 1))


@reg("ContractionOperator")
def g_contraction(I, rng):
    return _contraction(I, rng, False)


@reg("IntegrationOperator")
def g_integration(I, rng):
    return _contraction(I, rng, True)


# ---------------------------------------------------------------- distributors ---
@reg("DOFDistributor")
def g_dofdist(I, rng):
    # "dofdex: an integer Field on exactly one Space" -> structured spaces only
    sp, inf = gen_space(I, rng, ("RG", "RG", "HP", "GL"))
    n = int(np.prod(inf["shape"]))
    ndof = int(rng.integers(1, min(n, 4) + 1))
    dofdex = rng.integers(0, ndof, inf["shape"])
    flat = dofdex.reshape(-1)
    flat[rng.permutation(n)[:ndof]] = np.arange(ndof)
    dofdex = flat.reshape(inf["shape"]).astype(np.int64)
    multi = bool(rng.integers(0, 2))
    if multi:
        tgt, infos = gen_dom(I, rng, nsp=(2, 3), maxsize=36, first=(sp, inf))
        space = [i for i, d in enumerate(infos) if d is inf][0]
    else:
        tgt, infos, space = I.DomainTuple.make(sp), [inf], 0
    ddf = I.makeField(sp, dofdex)
    desc = dict(target=jd(infos), space=space if multi else None, dofdex=dofdex.tolist())
    if multi:
        op = construct(desc, lambda: I.DOFDistributor(ddf, tgt, space))
    elif rng.integers(0, 2):
        op = construct(desc, lambda: I.DOFDistributor(ddf))
    else:
        op = construct(desc, lambda: I.DOFDistributor(ddf, target=tgt))
    ax = axes_of(infos, space)

    def ref(a):
        a = np.asarray(a)      # shape: ... (ndof,) ...
        pre = a.shape[:ax[0]]
        post = a.shape[ax[0] + 1:]
        g = np.take(a, dofdex.reshape(-1), axis=ax[0])
        return g.reshape(pre + tuple(inf["shape"]) + post)
    # DOFSpace volumes = sum of the pixel volumes of each bin (documented in the distributor)
    exp = []
    if inf["dvol"] is not None:
        dv = np.broadcast_to(np.asarray(inf["dvol"], dtype=float).reshape(-1) if not np.isscalar(inf["dvol"])
                             else float(inf["dvol"]), (n,))
        wsum = np.bincount(dofdex.reshape(-1), weights=dv, minlength=ndof)
        got = np.asarray(op.domain[space].dvol, dtype=float)
        exp.append(("dof-volumes", bool(np.allclose(got, wsum, rtol=1e-12)), True))
    return dict(op=op, desc=desc, ref=ref, cap=3, keep=[("dofdex", ddf)], expect=exp,
                nontrivial=multi or not np.isscalar(inf["dvol"]))


def klengths(inf):
    """|k| of every pixel of a harmonic RGSpace (own computation)"""
    shp, dist = inf["shape"], inf["rdist"]
    k2 = np.zeros(shp)
    for ax, (n, d) in enumerate(zip(shp, dist)):
        i = np.arange(n)
        k = np.minimum(i, n - i) * d
        s = [1] * len(shp)
        s[ax] = n
        k2 = k2 + (k ** 2).reshape(s)
    return np.sqrt(k2)


@reg("PowerDistributor")
def g_powerdist(I, rng):
    sp, inf = sp_rg(I, rng, maxn=6, harmonic=True, minn=2)
    kl = klengths(inf)
    kr = np.round(kl / max(kl.max(), 1e-300), 10)
    uniq = np.unique(kr)
    mode = int(rng.integers(0, 3))
    bb = None
    if mode == 2 and len(uniq) >= 3:
        mids = 0.5 * (uniq[:-1] + uniq[1:]) * kl.max()
        k = int(rng.integers(1, len(mids)))
        sel = np.sort(rng.choice(len(mids), k, replace=False))
        bb = tuple(float(x) for x in mids[sel])
        pindex = np.searchsorted(np.array(bb), kl)
    else:
        pindex = np.searchsorted(uniq, kr)
    multi = bool(rng.integers(0, 2))
    if multi:
        tgt, infos = gen_dom(I, rng, nsp=(2, 3), maxsize=40, first=(sp, inf))
        space = [i for i, d in enumerate(infos) if d is inf][0]
    else:
        tgt, infos, space = I.DomainTuple.make(sp), [inf], 0
    desc = dict(target=jd(infos), space=space if multi else None, binbounds=bb, explicit_ps=mode > 0)
    ps = None
    if mode > 0:
        ps = construct(desc, lambda: I.PowerSpace(sp, binbounds=bb))
    if multi:
        op = construct(desc, lambda: I.PowerDistributor(tgt, ps, space))
    else:
        op = construct(desc, lambda: I.PowerDistributor(tgt, power_space=ps))
    ax = axes_of(infos, space)

    def ref(a):
        a = np.asarray(a)
        pre, post = a.shape[:ax[0]], a.shape[ax[0] + 1:]
        g = np.take(a, pindex.reshape(-1), axis=ax[0])
        return g.reshape(pre + tuple(inf["shape"]) + post)
    return dict(op=op, desc=desc, ref=ref, cap=3, nontrivial=multi or bb is not None)


# --------------------------------------------------------- harmonic transforms ---
def _fftlike(I, rng, cls, name):
    sp, inf = sp_rg(I, rng, maxn=6)
    multi = bool(rng.integers(0, 2))
    if multi:
        dom, infos = gen_dom(I, rng, nsp=(2, 3), maxsize=30, first=(sp, inf))
        space = [i for i, d in enumerate(infos) if d is inf][0]
    else:
        dom, infos, space = I.DomainTuple.make(sp), [inf], 0
    # own codomain: distances 1/(n d), opposite harmonic flag
    cod_dist = tuple(1.0 / (n * d) for n, d in zip(inf["shape"], inf["rdist"]))
    explicit = bool(rng.integers(0, 2))
    tgt_sp = I.RGSpace(inf["shape"], distances=cod_dist, harmonic=not inf["harmonic"]) if explicit else None
    desc = dict(dom=jd(infos), space=space if multi else None, explicit_target=explicit)
    if multi or rng.integers(0, 2):
        op = construct(desc, lambda: cls(dom, target=tgt_sp, space=space))
    else:
        op = construct(desc, lambda: cls(dom, target=tgt_sp))
    ax = axes_of(infos, space)
    dvol = inf["dvol"]
    if name == "fft":
        sign = +1 if inf["harmonic"] else -1
        ref = lambda a: dvol * L.explicit_dft(a, ax, sign)
    else:
        ref = lambda a: dvol * L.hartley_cplx(a, ax, canonical=False)
    exp = []
    cd = op.target[space]
    exp.append(("codomain", (tuple(cd.shape), bool(cd.harmonic),
                             bool(np.allclose(cd.distances, cod_dist, rtol=1e-12))),
                (tuple(inf["shape"]), not inf["harmonic"], True)))
    return dict(op=op, desc=desc, ref=ref, cap=15, expect=exp,
                nontrivial=multi or inf["dist"] is not None or inf["harmonic"])


@reg("FFTOperator")
def g_fft(I, rng):
    return _fftlike(I, rng, I.FFTOperator, "fft")


@reg("HartleyOperator")
def g_hartley(I, rng):
    return _fftlike(I, rng, I.HartleyOperator, "hartley")


def _sphere(I, rng, cls):
    sp, inf = sp_lm(I, rng)
    multi = bool(rng.integers(0, 2))
    if multi:
        dom, infos = gen_dom(I, rng, nsp=(2,), kinds=("RG", "U"), maxsize=30, first=(sp, inf))
        space = [i for i, d in enumerate(infos) if d is inf][0]
    else:
        dom, infos, space = I.DomainTuple.make(sp), [inf], 0
    u = int(rng.integers(0, 3))
    tgt = None
    if u == 1:
        tgt = I.HPSpace(1)
    elif u == 2:
        tgt = I.GLSpace(inf["lmax"] + 1, 2 * inf["mmax"] + 1)
    desc = dict(dom=jd(infos), space=space if multi else None, target=[None, "HP1", "GL"][u])
    op = construct(desc, lambda: cls(dom, target=tgt, space=space if multi else None))
    return dict(op=op, desc=desc, ref=None, cap=3, nontrivial=True)


@reg("SHTOperator")
def g_sht(I, rng):
    return _sphere(I, rng, I.SHTOperator)


@reg("HarmonicTransformOperator")
def g_harmtrafo(I, rng):
    if rng.integers(0, 2):
        return _sphere(I, rng, I.HarmonicTransformOperator)
    sp, inf = sp_rg(I, rng, maxn=6, harmonic=True)
    multi = bool(rng.integers(0, 2))
    if multi:
        dom, infos = gen_dom(I, rng, nsp=(2,), maxsize=30, first=(sp, inf))
        space = [i for i, d in enumerate(infos) if d is inf][0]
    else:
        dom, infos, space = I.DomainTuple.make(sp), [inf], 0
    desc = dict(dom=jd(infos), space=space if multi else None)
    op = construct(desc, lambda: I.HarmonicTransformOperator(dom, space=space if multi else None))
    ax = axes_of(infos, space)
    dvol = inf["dvol"]
    return dict(op=op, desc=desc, ref=lambda a: dvol * L.hartley_cplx(a, ax), cap=3,
                nontrivial=multi or inf["dist"] is not None)


@reg("HarmonicSmoothingOperator")
def g_smoothing(I, rng):
    sp, inf = sp_rg(I, rng, maxn=6, harmonic=False)
    multi = bool(rng.integers(0, 2))
    if multi:
        dom, infos = gen_dom(I, rng, nsp=(2,), maxsize=30, first=(sp, inf))
        space = [i for i, d in enumerate(infos) if d is inf][0]
    else:
        dom, infos, space = I.DomainTuple.make(sp), [inf], 0
    sigma = 0.0 if rng.integers(0, 8) == 0 else r3(rng.uniform(0.2, 2.0) * float(np.mean(inf["rdist"])))
    desc = dict(dom=jd(infos), space=space if multi else None, sigma=sigma)
    op = construct(desc, lambda: I.HarmonicSmoothingOperator(dom, sigma, space=space if multi else None))
    ax = axes_of(infos, space)
    hinf = dict(shape=inf["shape"], rdist=tuple(1.0 / (n * d) for n, d in zip(inf["shape"], inf["rdist"])))
    kern = np.exp(-2.0 * np.pi ** 2 * sigma ** 2 * klengths(hinf) ** 2)
    shp = full_shape(infos)
    ks = [1] * len(shp)
    for a_ in ax:
        ks[a_] = shp[a_]
    kern = kern.reshape(ks)
    nn = int(np.prod(inf["shape"]))

    def ref(a):
        f = L.explicit_dft(a, ax, -1) * kern
        r = L.explicit_dft(f, ax, +1) / nn
        return r if np.iscomplexobj(a) else r.real
    return dict(op=op, desc=desc, ref=ref, nontrivial=multi or sigma > 0)


@reg("FFTShiftOperator")
def g_fftshift(I, rng):
    for _ in range(100):
        dom, infos = gen_dom(I, rng, kinds=("RG", "RG", "U", "HP"))
        rgs = [i for i, d in enumerate(infos) if d["t"] == "RG"]
        if rgs:
            break
    else:
        raise Unavailable("no RG")
    u = int(rng.integers(0, 3))
    if len(rgs) == len(infos) and u == 0:
        arg, spaces = None, tuple(rgs)
    elif u == 1:
        i = int(rgs[int(rng.integers(0, len(rgs)))])
        neg = bool(rng.integers(0, 2))
        arg, spaces = (i - len(infos) if neg else i), (i,)
    else:
        k = int(rng.integers(1, len(rgs) + 1))
        spaces = tuple(sorted(int(x) for x in rng.choice(rgs, k, replace=False)))
        arg = spaces
    desc = dict(dom=jd(infos), spaces=arg)
    op = construct(desc, lambda: I.FFTShiftOperator(dom, arg) if arg is not None
                   else I.FFTShiftOperator(dom))
    axs = [a for i in spaces for a in axes_of(infos, i)]

    def ref(a):
        a = np.asarray(a)
        for ax in axs:
            a = np.roll(a, a.shape[ax] // 2, axis=ax)
        return a
    return dict(op=op, desc=desc, ref=ref, cap=15, nontrivial=len(spaces) < len(infos) or len(axs) > 1)


def _bcast_space(infos, space, arr):
    """reshape an array living on sub-space `space` so that it broadcasts against the full shape"""
    shp = full_shape(infos)
    ks = [1] * len(shp)
    for a_ in axes_of(infos, space):
        ks[a_] = shp[a_]
    return np.asarray(arr).reshape(ks)


@reg("create_harmonic_smoothing_operator")
def g_create_smoothing(I, rng):
    sp, inf = sp_rg(I, rng, maxn=6, harmonic=True)
    dom, infos = gen_dom(I, rng, nsp=(1, 2), maxsize=30, first=(sp, inf))
    space = [i for i, d in enumerate(infos) if d is inf][0]
    sigma = r3(rng.uniform(0.1, 1.5) / max(float(np.max(inf["rdist"])), 1e-3) / max(inf["shape"]))
    desc = dict(dom=jd(infos), space=space, sigma=sigma)
    op = construct(desc, lambda: I.create_harmonic_smoothing_operator(dom, space, sigma))
    kern = _bcast_space(infos, space, np.exp(-2.0 * np.pi ** 2 * sigma ** 2 * klengths(inf) ** 2))
    return dict(op=op, desc=desc, ref=lambda a: kern * np.asarray(a), cap=15,
                nontrivial=len(infos) > 1 or True)


@reg("create_power_operator")
def g_create_power(I, rng):
    sp, inf = sp_rg(I, rng, maxn=6, harmonic=True, minn=2)
    dom, infos = gen_dom(I, rng, nsp=(1, 2), maxsize=30, first=(sp, inf))
    space = [i for i, d in enumerate(infos) if d is inf][0]
    a0, k0, al = r3(rng.uniform(0.5, 3)), r3(rng.uniform(0.2, 2)), r3(rng.uniform(1, 4))
    spec_fn = lambda k: a0 / (1.0 + (k / k0) ** 2) ** (al / 2)
    as_field = bool(rng.integers(0, 2))
    sd = [None, np.float64, np.complex128][int(rng.integers(0, 3))]
    desc = dict(dom=jd(infos), space=space, spec=[a0, k0, al], as_field=as_field,
                sampling_dtype=None if sd is None else np.dtype(sd).name)
    kl = klengths(inf)
    if as_field:
        # Field on the natural PowerSpace: one value per distinct |k| (own binning)
        kr = np.round(kl / max(kl.max(), 1e-300), 10)
        uniq, inv = np.unique(kr, return_inverse=True)
        vals = rarr(rng, (len(uniq),), lo=0.5, hi=2.0)
        ps = construct(desc, lambda: I.PowerSpace(sp))
        if ps.shape != (len(uniq),):
            raise Unavailable("binning differs")   # judged by C10, not here
        pf = I.makeField(ps, vals)
        op = construct(desc, lambda: I.create_power_operator(dom, pf, space, sd))
        diag = vals[inv.reshape(kl.shape)]
    else:
        op = construct(desc, lambda: I.create_power_operator(dom, spec_fn, space=space,
                                                             sampling_dtype=sd))
        diag = spec_fn(kl)
    d = _bcast_space(infos, space, diag)
    return dict(op=op, desc=desc, ref=lambda a: d * np.asarray(a), cap=15, nontrivial=True)


# ------------------------------------------------------ padding / regridding ---
def _with_rg(I, rng, maxn=5, ndim=None, maxsize=36, **kw):
    sp, inf = sp_rg(I, rng, maxn=maxn, ndim=ndim, **kw)
    multi = bool(rng.integers(0, 2))
    if multi:
        dom, infos = gen_dom(I, rng, nsp=(2, 3), maxsize=maxsize, first=(sp, inf))
        space = [i for i, d in enumerate(infos) if d is inf][0]
    else:
        dom, infos, space = I.DomainTuple.make(sp), [inf], 0
    return sp, inf, dom, infos, space, multi


@reg("FieldZeroPadder")
def g_padder(I, rng):
    sp, inf, dom, infos, space, multi = _with_rg(I, rng, maxn=5, maxsize=24)
    new_shape = tuple(int(n + rng.integers(0, 4)) for n in inf["shape"])
    central = bool(rng.integers(0, 2))
    desc = dict(dom=jd(infos), space=space if multi else None, new_shape=new_shape, central=central)
    kw = {}
    if multi or rng.integers(0, 2):
        kw["space"] = space
    if central or rng.integers(0, 2):
        kw["central"] = central
    op = construct(desc, lambda: I.FieldZeroPadder(dom, new_shape, **kw))
    ax = axes_of(infos, space)

    def pad_matrix(n, N):
        P = np.zeros((N, n))
        if not central:
            P[np.arange(n), np.arange(n)] = 1
            return P
        # "padding in the middle": low frequencies 0..n//2 stay at the front, the last n//2
        # entries go to the end (for even n the central entry n/2 is not split: it appears twice)
        if N == n:
            return np.eye(n)
        h = n // 2
        for k in range(h + 1):
            P[k, k] = 1
        for j in range(1, h + 1):
            P[N - j, n - j] = 1
        return P

    def ref(a):
        a = np.asarray(a)
        for k, axx in enumerate(ax):
            a = L.apply_along_axis_matrix(a, pad_matrix(inf["shape"][k], new_shape[k]), axx)
        return a
    tsp = op.target[space]
    exp = [("target-space", (tuple(tsp.shape), bool(tsp.harmonic),
                             bool(np.allclose(tsp.distances, inf["rdist"], rtol=1e-12))),
            (new_shape, inf["harmonic"], True))]
    return dict(op=op, desc=desc, ref=ref, cap=3, expect=exp,
                nontrivial=multi or central or new_shape != tuple(inf["shape"]))


@reg("RegriddingOperator")
def g_regrid(I, rng):
    sp, inf, dom, infos, space, multi = _with_rg(I, rng, maxn=6, maxsize=30, harmonic=False)
    new_shape = tuple(int(rng.integers(1, n + 1)) for n in inf["shape"])
    desc = dict(dom=jd(infos), space=space if multi else None, new_shape=new_shape)
    if multi or rng.integers(0, 2):
        op = construct(desc, lambda: I.RegriddingOperator(dom, new_shape, space))
    else:
        op = construct(desc, lambda: I.RegriddingOperator(dom, new_shape))
    ax = axes_of(infos, space)

    def interp_matrix(n, N, d):
        # new grid point k sits at k*newdist, newdist = d*n/N; linear interpolation on the old
        # grid j*d (np.interp, never outside the old grid because N <= n)
        W = np.zeros((N, n))
        xo = np.arange(n) * d
        xn = np.arange(N) * (d * n / N)
        for j in range(n):
            e = np.zeros(n)
            e[j] = 1
            W[:, j] = np.interp(xn, xo, e)
        return W

    def ref(a):
        a = np.asarray(a)
        for k, axx in enumerate(ax):
            a = L.apply_along_axis_matrix(a, interp_matrix(inf["shape"][k], new_shape[k],
                                                           inf["rdist"][k]), axx)
        return a
    tsp = op.target[space]
    nd = tuple(d * n / N for d, n, N in zip(inf["rdist"], inf["shape"], new_shape))
    exp = [("target-space", (tuple(tsp.shape), bool(np.allclose(tsp.distances, nd, rtol=1e-12))),
            (new_shape, True))]
    return dict(op=op, desc=desc, ref=ref, cap=3, expect=exp,
                nontrivial=multi or new_shape != tuple(inf["shape"]))


# ------------------------------------------------------------ slicing / masks ---
@reg("SliceOperator")
def g_slice(I, rng):
    dom, infos = gen_dom(I, rng, kinds=("RG", "RG", "U", "HP"), maxsize=36)
    center = bool(rng.integers(0, 2))
    pres = bool(rng.integers(0, 2))
    new_shape, slc, changed = [], [], False
    for d in infos:
        u = int(rng.integers(0, 3))
        if d["t"] == "HP" or u == 0:
            if rng.integers(0, 2):
                new_shape.append(None)
            else:
                new_shape.append(d["shape"] if len(d["shape"]) > 1 or rng.integers(0, 2)
                                 else d["shape"][0])
            tgt = d["shape"]
        else:
            tgt = tuple(int(rng.integers(1, n + 1)) for n in d["shape"])
            new_shape.append(tgt if len(tgt) > 1 or rng.integers(0, 2) else tgt[0])
            changed = changed or tgt != tuple(d["shape"])
        for n, m in zip(d["shape"], tgt):
            st = int(np.floor((n - m) / 2.0)) if center else 0
            slc.append(slice(st, st + m))
    new_shape = tuple(new_shape)
    desc = dict(dom=jd(infos), new_shape=new_shape, center=center, preserve_dist=pres)
    kw = {}
    if center or rng.integers(0, 2):
        kw["center"] = center
    if not pres or rng.integers(0, 2):
        kw["preserve_dist"] = pres
    op = construct(desc, lambda: I.SliceOperator(dom, new_shape, **kw))
    slc = tuple(slc)
    exp = []
    for i, d in enumerate(infos):
        if d["t"] == "RG":
            t = op.target[i]
            same = tuple(t.shape) == tuple(d["shape"])
            if pres or same:
                exp.append((f"distances[{i}]", bool(np.allclose(t.distances, d["rdist"], rtol=1e-12)), True))
            exp.append((f"harmonic[{i}]", bool(t.harmonic), d["harmonic"]))
    return dict(op=op, desc=desc, ref=lambda a: np.asarray(a)[slc], cap=3, expect=exp,
                nontrivial=changed and (len(infos) > 1 or center or not pres))


@reg("SplitOperator")
def g_split(I, rng):
    # only one-dimensional sub-spaces: SplitOperator addresses numpy axes by sub-space index
    # ("along this axis"); its meaning for multi-dimensional sub-spaces is not documented
    for _ in range(200):
        dom, infos = gen_dom(I, rng, kinds=("RG", "U", "U", "HP"), maxsize=36)
        if all(len(d["shape"]) == 1 for d in infos):
            break
    else:
        raise Unavailable("no 1-d domain")
    inter = bool(rng.integers(0, 2))
    nk = int(rng.integers(1, 4))
    sizes = [int(np.prod(d["shape"])) for d in infos]
    oned = [len(d["shape"]) == 1 for d in infos]
    slices, jdesc, refs = {}, {}, {}
    # for non-intersecting mode: partition the first sliceable 1-d space
    part_space = next((i for i, o in enumerate(oned) if o), None)
    if not inter and part_space is None:
        inter = True
    cuts = None
    if not inter:
        n = sizes[part_space]
        nk = min(nk, n)
        cuts = [0] + sorted(int(x) for x in rng.choice(np.arange(1, n), nk - 1, replace=False)) + [n] \
            if nk > 1 else [0, n]
    for ki in range(nk):
        key = "k%d" % ki
        tup, jt, idx = [], [], []
        fancy_used = False
        nent = int(rng.integers(1, len(infos) + 1)) if inter else len(infos)
        for i in range(nent):
            n = sizes[i]
            if not inter:
                if i == part_space:
                    tup.append(slice(cuts[ki], cuts[ki + 1]))
                    jt.append(["slice", cuts[ki], cuts[ki + 1], None])
                    idx.append(slice(cuts[ki], cuts[ki + 1]))
                else:
                    tup.append(None)
                    jt.append(None)
                    idx.append(slice(None))
                continue
            u = int(rng.integers(0, 6)) if oned[i] else 0
            if u == 0:
                if rng.integers(0, 2):
                    tup.append(None)
                    jt.append(None)
                else:
                    tup.append(slice(None))
                    jt.append(["slice", None, None, None])
                idx.append(slice(None) if oned[i] else None)
            elif u == 1 and not fancy_used:
                v = int(rng.integers(0, n))
                tup.append(v)
                jt.append(v)
                idx.append(v)
            elif u == 2:
                a = int(rng.integers(0, n))
                b = int(rng.integers(a + 1, n + 1))
                st = 1
                if rng.integers(0, 3) == 0:
                    divs = [s for s in range(2, b - a + 1) if (b - a) % s == 0]
                    if divs:
                        st = int(divs[int(rng.integers(0, len(divs)))])
                s_ = slice(a, b, st if (st > 1 or rng.integers(0, 2)) else None)
                tup.append(s_)
                jt.append(["slice", a, b, s_.step])
                idx.append(s_)
            elif u == 3:
                a = int(rng.integers(0, n))
                s_ = slice(a, None) if rng.integers(0, 2) else slice(None, a + 1)
                tup.append(s_)
                jt.append(["slice", s_.start, s_.stop, None])
                idx.append(s_)
            elif u == 4 and not fancy_used and not any(isinstance(t, int) for t in tup):
                k = int(rng.integers(1, n + 1))
                lst = [int(x) for x in rng.choice(n, k, replace=False)]
                form = int(rng.integers(0, 3))
                tup.append([lst, tuple(lst), np.array(lst)][form])
                jt.append(["list", lst])
                idx.append(lst)
                fancy_used = True
            elif u == 5 and not fancy_used and not any(isinstance(t, int) for t in tup):
                m = rng.integers(0, 2, n).astype(bool)
                m[int(rng.integers(0, n))] = True
                tup.append(m)
                jt.append(["mask", m.tolist()])
                idx.append(m)
                fancy_used = True
            else:
                tup.append(None)
                jt.append(None)
                idx.append(slice(None))
        # int after a fancy index would reorder numpy's result axes: keep ints before
        slices[key] = tuple(tup)
        jdesc[key] = jt
        # expand idx to numpy axes (multi-dim spaces only get slice(None))
        full = []
        for i, d in enumerate(infos):
            if i < len(idx):
                if idx[i] is None:
                    full += [slice(None)] * len(d["shape"])
                else:
                    full.append(idx[i])
            else:
                full += [slice(None)] * len(d["shape"])
        refs[key] = tuple(full)
    desc = dict(dom=jd(infos), slices=jdesc, intersecting=inter)
    if inter and rng.integers(0, 2):
        op = construct(desc, lambda: I.SplitOperator(dom, slices))
    else:
        op = construct(desc, lambda: I.SplitOperator(dom, slices, intersecting_slices=inter))
    ref = lambda a: {k: np.asarray(a)[ix] for k, ix in refs.items()}
    return dict(op=op, desc=desc, ref=ref, cap=3, nontrivial=True)


@reg("MaskOperator")
def g_mask(I, rng):
    dom, infos = gen_dom(I, rng, maxsize=36)
    shp = full_shape(infos)
    kind = int(rng.integers(0, 3))
    fl = rng.integers(0, 2, shp)
    if kind == 0:
        flags = fl.astype(bool)
    elif kind == 1:
        flags = fl.astype(np.int64) * rng.integers(1, 4, shp)
    else:
        flags = fl.astype(np.float64) * rng.uniform(0.5, 2, shp)
    if rng.integers(0, 10) == 0:
        flags = np.zeros(shp, dtype=flags.dtype)
    ff = I.makeField(dom, flags)
    desc = dict(dom=jd(infos), flags=np.asarray(flags != 0, dtype=int).tolist(), dtype=str(flags.dtype))
    op = construct(desc, lambda: I.MaskOperator(ff))
    keepm = ~(flags != 0)
    nk = int(keepm.sum())
    exp = [("target", op.target, I.DomainTuple.make(I.UnstructuredDomain(nk)))]
    return dict(op=op, desc=desc, ref=lambda a: np.asarray(a)[keepm], cap=3, keep=[("flags", ff)],
                expect=exp, nontrivial=len(infos) > 1 or kind > 0)


@reg("ExtractAtIndices")
def g_extract(I, rng):
    dom, infos = gen_dom(I, rng, maxsize=36)
    space = int(rng.integers(0, len(infos)))
    shp = infos[space]["shape"]
    k = int(rng.integers(1, 6))
    inds = tuple(tuple(int(x) for x in rng.integers(0, n, k)) for n in shp)
    desc = dict(dom=jd(infos), space=space, indices=inds)
    if space == 0 and rng.integers(0, 2):
        op = construct(desc, lambda: I.ExtractAtIndices(dom, inds))
    else:
        op = construct(desc, lambda: I.ExtractAtIndices(dom, inds, space))
    ax = axes_of(infos, space)

    def ref(a):
        a = np.asarray(a)
        b = np.moveaxis(a, ax, tuple(range(len(ax))))
        g = b[inds]                      # (k, rest...)
        return np.moveaxis(g, 0, ax[0])
    tgt = I.DomainTuple.make(tuple(I.UnstructuredDomain(k) if i == space else dom[i]
                                   for i in range(len(infos))))
    return dict(op=op, desc=desc, ref=ref, cap=3, expect=[("target", op.target, tgt)],
                nontrivial=len(infos) > 1 or len(set(zip(*inds))) < k)


# ---------------------------------------------------------------------- einsum ---
def _flat(a, infos):
    """reshape an array on a DomainTuple so that every sub-space is one axis"""
    return np.asarray(a).reshape([int(np.prod(d["shape"])) for d in infos])


EINSUM_TEMPLATES = [
    # (mf subscripts per key, free subscripts, output)
    (["ij"], "j", "i"), (["ij"], "i", "j"), (["i"], "i", "i"), (["i"], "j", "ij"),
    (["i"], "j", "ji"), (["ij"], "jk", "ik"), (["ij", "k"], "jk", "i"), (["i", "j"], "ij", ""),
    (["ij"], "ij", "j"), (["i"], "ij", "j"), (["ij", "jk"], "k", "i"),
]


def _einsum_setup(I, rng):
    mfs, free, out = EINSUM_TEMPLATES[int(rng.integers(0, len(EINSUM_TEMPLATES)))]
    letters = sorted(set("".join(mfs) + free))
    spaces = {}
    for c in letters:
        spaces[c] = gen_space(I, rng, ("RG", "U", "RG"))
        while int(np.prod(spaces[c][1]["shape"])) > 4:
            spaces[c] = gen_space(I, rng, ("RG", "U", "RG"))
    return mfs, free, out, spaces


@reg("LinearEinsum")
def g_lineinsum(I, rng):
    mfs, free, out, spaces = _einsum_setup(I, rng)
    keys = ["m%d" % i for i in range(len(mfs))]
    cplx = bool(rng.integers(0, 2))
    doms = {k: I.DomainTuple.make(tuple(spaces[c][0] for c in ss)) for k, ss in zip(keys, mfs)}
    arrs = {k: rarr(rng, doms[k].shape, cplx) for k in keys}
    mf = I.MultiField.from_dict({k: I.makeField(doms[k], arrs[k]) for k in keys})
    dom = I.DomainTuple.make(tuple(spaces[c][0] for c in free))
    sub = ",".join(mfs + [free]) + "->" + out
    # key_order: MultiField keys are sorted; pass explicitly sometimes
    ko = tuple(keys) if rng.integers(0, 2) else None
    opt = ["optimal", "greedy", False, True][int(rng.integers(0, 4))]
    desc = dict(subscripts=sub, spaces={c: jd([spaces[c][1]])[0] for c in spaces}, cplx=cplx,
                key_order=ko, optimize=opt)
    op = construct(desc, lambda: I.LinearEinsum(dom, mf, sub, key_order=ko, optimize=opt))
    infos_mf = {k: [spaces[c][1] for c in ss] for k, ss in zip(keys, mfs)}
    infos_free = [spaces[c][1] for c in free]
    out_shape = tuple(x for c in out for x in spaces[c][1]["shape"])

    def ref(a):
        ops = [_flat(arrs[k], infos_mf[k]) for k in keys] + [_flat(a, infos_free)]
        return np.einsum(sub, *ops).reshape(out_shape)
    tgt = I.DomainTuple.make(tuple(spaces[c][0] for c in out))
    return dict(op=op, desc=desc, ref=ref, cap=3, keep=[("mf", mf)], expect=[("target", op.target, tgt)],
                nontrivial=True)


@reg("MultiLinearEinsum", covers=["MultiLinearEinsum"])
def g_multieinsum(I, rng):
    """Jacobian of MultiLinearEinsum at a random point (a LinearOperator on the MultiDomain)"""
    mfs, free, out, spaces = _einsum_setup(I, rng)
    subs = mfs + [free]
    keys = ["v%d" % i for i in range(len(subs))]
    doms = {k: I.DomainTuple.make(tuple(spaces[c][0] for c in ss)) for k, ss in zip(keys, subs)}
    cplx = bool(rng.integers(0, 2))
    # optionally make the first field static
    static = bool(rng.integers(0, 3) == 0) and len(keys) > 1
    arrs = {k: rarr(rng, doms[k].shape, cplx) for k in keys}
    sub = ",".join(subs) + "->" + out
    desc = dict(subscripts=sub, spaces={c: jd([spaces[c][1]])[0] for c in spaces}, cplx=cplx,
                static=static)
    if static:
        sk = keys[0]
        smf = I.MultiField.from_dict({sk: I.makeField(doms[sk], arrs[sk])})
        vdom = I.MultiDomain.make({k: doms[k] for k in keys[1:]})
        mle = construct(desc, lambda: I.MultiLinearEinsum(vdom, sub, key_order=tuple(keys),
                                                          static_mf=smf))
        vkeys = keys[1:]
    else:
        vdom = I.MultiDomain.make(doms)
        mle = construct(desc, lambda: I.MultiLinearEinsum(vdom, sub))
        vkeys = keys
    pos = I.MultiField.from_dict({k: I.makeField(doms[k], arrs[k]) for k in vkeys})
    lin = construct(desc, lambda: mle(I.Linearization.make_var(pos)))
    op = lin.jac
    infos = {k: [spaces[c][1] for c in ss] for k, ss in zip(keys, subs)}
    out_shape = tuple(x for c in out for x in spaces[c][1]["shape"])

    def ref(d):
        tot = 0
        for k in vkeys:
            ops = [_flat(d[q] if q == k else arrs[q], infos[q]) for q in keys]
            tot = tot + np.einsum(sub, *ops)
        return np.asarray(tot).reshape(out_shape)
    # value of the operator itself
    val = np.einsum(sub, *[_flat(arrs[q], infos[q]) for q in keys]).reshape(out_shape)
    exp = [("value", bool(np.allclose(lin.val.asnumpy(), val, rtol=1e-10, atol=1e-12)), True)]
    return dict(op=op, desc=desc, ref=ref, expect=exp, nontrivial=True)


@reg("OuterProduct")
def g_outer(I, rng):
    dom, infos = gen_dom(I, rng, nsp=(1, 2), maxsize=8)
    fdom, finfos = gen_dom(I, rng, nsp=(1, 1, 2), maxsize=5)
    cplx = bool(rng.integers(0, 2))
    fa = rarr(rng, fdom.shape, cplx)
    f = I.makeField(fdom, fa)
    desc = dict(dom=jd(infos), fdom=jd(finfos), cplx=cplx)
    op = construct(desc, lambda: I.OuterProduct(dom, f))
    tgt = I.DomainTuple.make(tuple(fdom) + tuple(dom))
    return dict(op=op, desc=desc, ref=lambda a: np.multiply.outer(fa, np.asarray(a)), cap=3,
                keep=[("field", f)], expect=[("target", op.target, tgt)], nontrivial=True)


# -------------------------------------------------------------------- inserters ---
@reg("ValueInserter")
def g_valins(I, rng):
    tgt, infos = gen_dom(I, rng, maxsize=36)
    shp = full_shape(infos)
    idx = tuple(int(rng.integers(0, n)) for n in shp)
    form = int(rng.integers(0, 2))
    desc = dict(target=jd(infos), index=idx)
    op = construct(desc, lambda: I.ValueInserter(tgt, idx if form else list(idx)))

    def ref(a):
        r = np.zeros(shp, dtype=np.asarray(a).dtype)
        r[idx] = np.asarray(a).reshape(())
        return r
    return dict(op=op, desc=desc, ref=ref, cap=3,
                expect=[("domain", op.domain, I.DomainTuple.scalar_domain())],
                nontrivial=len(shp) > 1)


@reg("DomainTupleFieldInserter")
def g_dtfi(I, rng):
    tgt, infos = gen_dom(I, rng, nsp=(1, 2, 3), maxsize=36)
    space = int(rng.integers(0, len(infos)))
    idx = tuple(int(rng.integers(0, n)) for n in infos[space]["shape"])
    desc = dict(target=jd(infos), space=space, index=idx)
    op = construct(desc, lambda: I.DomainTupleFieldInserter(tgt, space, idx))
    ax = axes_of(infos, space)
    shp = full_shape(infos)

    def ref(a):
        r = np.zeros(shp, dtype=np.asarray(a).dtype)
        sl = [slice(None)] * len(shp)
        for a_, i_ in zip(ax, idx):
            sl[a_] = i_
        r[tuple(sl)] = np.asarray(a)
        return r
    dom = I.DomainTuple.make(tuple(tgt[i] for i in range(len(infos)) if i != space))
    return dict(op=op, desc=desc, ref=ref, cap=3, expect=[("domain", op.domain, dom)],
                nontrivial=len(infos) > 1)


# ------------------------------------------------------------ shape operators ---
@reg("TransposeOperator")
def g_transpose(I, rng):
    dom, infos = gen_dom(I, rng, nsp=(1, 2, 3, 3), maxsize=36)
    perm = [int(x) for x in rng.permutation(len(infos))]
    desc = dict(dom=jd(infos), indices=perm)
    op = construct(desc, lambda: I.TransposeOperator(dom, perm if rng.integers(0, 2) else tuple(perm)))
    np_axes = [a for p in perm for a in axes_of(infos, p)]
    tgt = I.DomainTuple.make(tuple(dom[p] for p in perm))
    return dict(op=op, desc=desc, ref=lambda a: np.transpose(np.asarray(a), np_axes), cap=15,
                expect=[("target", op.target, tgt)], nontrivial=perm != sorted(perm))


@reg("SqueezeOperator")
def g_squeeze(I, rng):
    for _ in range(200):
        n = int(rng.integers(1, 4))
        items = []
        for _ in range(n):
            u = int(rng.integers(0, 6))
            if u == 0:
                items.append((I.UnstructuredDomain(1), dict(t="U", shape=(1,))))
            elif u == 1:
                d = r3(np.exp(rng.uniform(-1, 1)))
                items.append((I.RGSpace(1, distances=d), dict(t="RG", shape=(1,), dist=(d,),
                                                              harmonic=False)))
            elif u == 2:
                shp = tuple(int(x) for x in rng.choice([1, 1, 2, 3], 2))
                items.append((I.UnstructuredDomain(shp), dict(t="U", shape=shp)))
            elif u == 3:
                shp = tuple(int(x) for x in rng.choice([1, 1, 2, 3], 2))
                dd = tuple(r3(np.exp(rng.uniform(-1, 1))) for _ in shp)
                hm = bool(rng.integers(0, 2))
                items.append((I.RGSpace(shp, distances=dd, harmonic=hm),
                              dict(t="RG", shape=shp, dist=dd, harmonic=hm)))
            else:
                items.append(gen_space(I, rng, ("RG", "U", "HP")))
        aggressive = bool(rng.integers(0, 2))
        removable = any(d["shape"] == (1,) or (aggressive and d["t"] in ("U", "RG") and 1 in d["shape"])
                        for _, d in items)
        dom = I.DomainTuple.make(tuple(s for s, _ in items))
        if removable and dom.size <= 36:
            break
    else:
        raise Unavailable("squeeze")
    infos = [d for _, d in items]
    desc = dict(dom=jd(infos), aggressive=aggressive)
    if aggressive or rng.integers(0, 2):
        op = construct(desc, lambda: I.SqueezeOperator(dom, aggressive))
    else:
        op = construct(desc, lambda: I.SqueezeOperator(dom))
    # expected target: untouched spaces must stay *identical*; rebuilt ones (singleton axes
    # removed) are compared by shape / harmonic flag / distances (rel. 1e-12)
    tg = []
    for (s_, d) in items:
        if d["shape"] == (1,):
            continue
        if aggressive and d["t"] in ("U", "RG") and 1 in d["shape"]:
            keepax = [i for i, n in enumerate(d["shape"]) if n != 1]
            shp = tuple(d["shape"][i] for i in keepax)
            if d["t"] == "U":
                tg.append(("U", shp, None, None))
            elif shp:
                tg.append(("RG", shp, tuple(d.get("rdist", d["dist"])[i] for i in keepax), d["harmonic"]))
            # an RGSpace whose axes are all singletons has no axis left: it disappears
        else:
            tg.append(("same", s_))
    exp = []
    ok = len(op.target) == len(tg)
    if ok:
        for t, e in zip(op.target, tg):
            if e[0] == "same":
                ok = ok and (t == e[1])
            elif e[0] == "U":
                ok = ok and isinstance(t, I.UnstructuredDomain) and tuple(t.shape) == e[1]
            else:
                ok = ok and isinstance(t, I.RGSpace) and tuple(t.shape) == e[1] \
                    and bool(t.harmonic) == e[3] and np.allclose(t.distances, e[2], rtol=1e-12)
    exp.append(("target", bool(ok), True))
    tshape = op.target.shape
    return dict(op=op, desc=desc, ref=lambda a: np.asarray(a).reshape(tshape), cap=15, expect=exp,
                nontrivial=aggressive or len(infos) > 1)


@reg("GeometryRemover")
def g_georem(I, rng):
    dom, infos = gen_dom(I, rng, maxsize=36)
    space = None if rng.integers(0, 2) else int(rng.integers(0, len(infos)))
    desc = dict(dom=jd(infos), space=space)
    if space is None and rng.integers(0, 2):
        op = construct(desc, lambda: I.GeometryRemover(dom))
    else:
        op = construct(desc, lambda: I.GeometryRemover(dom, space))
    tgt = I.DomainTuple.make(tuple(I.UnstructuredDomain(d["shape"]) if space in (None, i) else dom[i]
                                   for i, d in enumerate(infos)))
    return dict(op=op, desc=desc, ref=lambda a: np.asarray(a), cap=3,
                expect=[("target", op.target, tgt)], nontrivial=space is not None and len(infos) > 1)


@reg("DomainChangerAndReshaper")
def g_dcr(I, rng):
    dom, infos = gen_dom(I, rng, maxsize=36)
    n = dom.size
    # random factorisation of n into 1-3 unstructured / RG axes
    fac = []
    m = n
    while m > 1 and len(fac) < 2:
        divs = [d for d in range(1, m + 1) if m % d == 0]
        f = int(divs[int(rng.integers(0, len(divs)))])
        fac.append(f)
        m //= f
    fac.append(m)
    sps = [I.RGSpace(f) if rng.integers(0, 2) else I.UnstructuredDomain(f) for f in fac]
    tgt = I.DomainTuple.make(tuple(sps))
    desc = dict(dom=jd(infos), target_shape=fac)
    op = construct(desc, lambda: I.DomainChangerAndReshaper(dom, tgt))
    return dict(op=op, desc=desc, ref=lambda a: np.asarray(a).reshape(tuple(fac)), cap=3,
                expect=[("target", op.target, tgt)], nontrivial=len(infos) > 1 or len(fac) > 1)


# ------------------------------------------------------- field adapters etc. ---
@reg("FieldAdapter", covers=["FieldAdapter", "ducktape", "Variable", "_SlowFieldAdapter"])
def g_adapter(I, rng):
    dom, infos = gen_dom(I, rng, maxsize=24)
    name = ["a", "key", "x1"][int(rng.integers(0, 3))]
    how = int(rng.integers(0, 8))
    desc = dict(dom=jd(infos), name=name, how=how)
    md1 = I.MultiDomain.make({name: dom})
    dom2, infos2 = gen_dom(I, rng, nsp=(1,), maxsize=6)
    md2 = I.MultiDomain.make({name: dom, "zz": dom2}) if rng.integers(0, 2) else \
        I.MultiDomain.make({name: dom, "0b": dom2})
    desc["other"] = jd(infos2)
    to_field = lambda d: np.asarray(d[name])
    to_multi = lambda a: {name: np.asarray(a)}
    if how == 0:      # DomainTuple target -> domain {name: dom}
        op = construct(desc, lambda: I.FieldAdapter(dom, name)); ref, e = to_field, (md1, dom)
    elif how == 1:    # MultiDomain given -> domain dom, target {name: dom}
        op = construct(desc, lambda: I.FieldAdapter(md2, name)); ref, e = to_multi, (dom, md1)
    elif how == 2:
        op = construct(desc, lambda: I.ducktape(dom, None, name)); ref, e = to_field, (md1, dom)
    elif how == 3:
        op = construct(desc, lambda: I.ducktape(None, dom, name)); ref, e = to_multi, (dom, md1)
    elif how == 4:    # slow adapter: extract one key of a 2-key domain
        op = construct(desc, lambda: I.ducktape(dom, md2, name)); ref, e = to_field, (md2, dom)
    elif how == 5:    # adjoint of slow adapter: insert into 2-key domain
        op = construct(desc, lambda: I.ducktape(md2, dom, name))
        ok = [k for k in md2.keys() if k != name][0]
        ref = lambda a: {name: np.asarray(a), ok: np.zeros(md2[ok].shape)}
        e = (dom, md2)
    elif how == 6:
        op = construct(desc, lambda: I.Variable(dom, name)); ref, e = to_field, (md1, dom)
    else:
        op = construct(desc, lambda: I.ducktape(md2, None, name))
        ok = [k for k in md2.keys() if k != name][0]
        ref = lambda a: {name: np.asarray(a), ok: np.zeros(md2[ok].shape)}
        e = (dom, md2)
    return dict(op=op, desc=desc, ref=ref, expect=[("domain", op.domain, e[0]), ("target", op.target, e[1])],
                nontrivial=how in (1, 4, 5, 7) or len(infos) > 1)


@reg("PrependKey")
def g_prepend(I, rng):
    md, subs, infos = gen_mdom(I, rng, keys=("a", "b") if rng.integers(0, 2) else ("q",))
    pre = ["p_", "Z", "0"][int(rng.integers(0, 3))]
    desc = dict(dom={k: jd(v) for k, v in infos.items()}, pre=pre)
    op = construct(desc, lambda: I.PrependKey(md, pre))
    tgt = I.MultiDomain.make({pre + k: subs[k] for k in subs})
    return dict(op=op, desc=desc, ref=lambda d: {pre + k: np.asarray(v) for k, v in d.items()}, cap=3,
                expect=[("target", op.target, tgt)], nontrivial=len(subs) > 1)


@reg("PartialExtractor")
def g_partial(I, rng):
    md, subs, infos = gen_mdom(I, rng, keys=("a", "b", "c"), maxsize=6)
    k = int(rng.integers(1, 4))
    sel = sorted(str(x) for x in rng.choice(["a", "b", "c"], k, replace=False))
    tgt = I.MultiDomain.make({q: subs[q] for q in sel})
    desc = dict(dom={q: jd(v) for q, v in infos.items()}, keys=sel)
    op = construct(desc, lambda: I.PartialExtractor(md, tgt))
    return dict(op=op, desc=desc, ref=lambda d: {q: np.asarray(d[q]) for q in sel}, cap=3,
                nontrivial=k < 3)


@reg("Multifield2Vector")
def g_mf2v(I, rng):
    md, subs, infos = gen_mdom(I, rng, keys=("a", "b", "c")[:int(rng.integers(1, 4))], maxsize=8)
    desc = dict(dom={q: jd(v) for q, v in infos.items()})
    op = construct(desc, lambda: I.Multifield2Vector(md))
    ref = lambda d: np.concatenate([np.asarray(d[k]).reshape(-1) for k in sorted(d)])
    tgt = I.DomainTuple.make(I.UnstructuredDomain(sum(subs[k].size for k in subs)))
    return dict(op=op, desc=desc, ref=ref, cap=3, expect=[("target", op.target, tgt)],
                nontrivial=len(subs) > 1)


def _dom_any(I, rng):
    """DomainTuple or MultiDomain (for operators documented to take both)"""
    if rng.integers(0, 3) == 0:
        md, subs, infos = gen_mdom(I, rng)
        return md, {k: jd(v) for k, v in infos.items()}, True
    dom, infos = gen_dom(I, rng, maxsize=24)
    return dom, jd(infos), False


def _map(fn):
    return lambda a: {k: fn(np.asarray(v)) for k, v in a.items()} if isinstance(a, dict) \
        else fn(np.asarray(a))


@reg("Realizer")
def g_realizer(I, rng):
    dom, jdn, multi = _dom_any(I, rng)
    desc = dict(dom=jdn)
    op = construct(desc, lambda: I.Realizer(dom))
    return dict(op=op, desc=desc, ref=_map(lambda a: a.real.astype(np.float64)), cap=3,
                nontrivial=True)


@reg("Imaginizer")
def g_imaginizer(I, rng):
    dom, jdn, multi = _dom_any(I, rng)
    desc = dict(dom=jdn)
    op = construct(desc, lambda: I.Imaginizer(dom))
    # documented: TIMES needs complex input, ADJOINT_TIMES real input
    return dict(op=op, desc=desc, ref=_map(lambda a: a.imag.astype(np.float64)), cap=3,
                kinds={TIMES: "c", ADJ: "f"}, nontrivial=True)


@reg("ConjugationOperator")
def g_conj(I, rng):
    dom, infos = gen_dom(I, rng, maxsize=24)
    desc = dict(dom=jd(infos))
    op = construct(desc, lambda: I.ConjugationOperator(dom))
    return dict(op=op, desc=desc, ref=lambda a: np.conj(np.asarray(a)), cap=15, nontrivial=True)


@reg("WeightApplier")
def g_weightapplier(I, rng):
    from nifty.cl.operators.simple_linear_operators import WeightApplier
    dom, infos = gen_dom(I, rng, kinds=("RG", "RG", "HP", "GL", "LM"), maxsize=30)
    arg, spaces = pick_spaces(rng, len(infos))
    power = int(rng.choice([1, 2, -1, -2, 0]))
    desc = dict(dom=jd(infos), spaces=arg, power=power)
    op = construct(desc, lambda: WeightApplier(dom, arg, power))
    w = weight_array(infos, spaces, power)
    return dict(op=op, desc=desc, ref=lambda a: np.asarray(a) * w, cap=15, nontrivial=True)


@reg("VdotOperator")
def g_vdot(I, rng):
    dom, jdn, multi = _dom_any(I, rng)
    cplx = bool(rng.integers(0, 2))
    if multi:
        arrs = {k: rarr(rng, dom[k].shape, cplx) for k in dom.keys()}
        f = I.MultiField.from_dict({k: I.makeField(dom[k], v) for k, v in arrs.items()})
        ref = lambda d: np.array(sum(np.vdot(arrs[k], np.asarray(d[k])) for k in arrs))
    else:
        arr = rarr(rng, dom.shape, cplx)
        f = I.makeField(dom, arr)
        ref = lambda a: np.array(np.vdot(arr, np.asarray(a)))
    desc = dict(dom=jdn, cplx=cplx)
    op = construct(desc, lambda: I.VdotOperator(f))
    return dict(op=op, desc=desc, ref=ref, cap=3, keep=[("field", f)],
                expect=[("target", op.target, I.DomainTuple.scalar_domain())], nontrivial=cplx or multi)


@reg("NullOperator")
def g_null(I, rng):
    dom, jd1, m1 = _dom_any(I, rng)
    tgt, jd2, m2 = _dom_any(I, rng)
    desc = dict(dom=jd1, tgt=jd2)
    op = construct(desc, lambda: I.NullOperator(dom, tgt))

    def ref(a):
        if m2:
            return {k: np.zeros(tgt[k].shape) for k in tgt.keys()}
        return np.zeros(tgt.shape)
    return dict(op=op, desc=desc, ref=ref, cap=3, nontrivial=m1 or m2)


# ----------------------------------------------------------- diagonal family ---
@reg("ScalingOperator")
def g_scaling(I, rng):
    dom, jdn, multi = _dom_any(I, rng)
    u = int(rng.integers(0, 6))
    c = [None, 1.0, 0.0, 2, None, None][u]
    if c is None:
        c = complex(*np.round(rng.standard_normal(2), 3)) if u == 0 else r3(rng.uniform(0.4, 2.5) * rng.choice([-1, 1]))
    via = int(rng.integers(0, 2))
    desc = dict(dom=jdn, factor=c, via_makeOp=bool(via))
    if via:
        op = construct(desc, lambda: I.makeOp(c, dom))
    else:
        op = construct(desc, lambda: I.ScalingOperator(dom, c))
    return dict(op=op, desc=desc, ref=_map(lambda a: c * a), cap=15,
                nontrivial=isinstance(c, complex) or multi)


@reg("DiagonalOperator", covers=["DiagonalOperator", "makeOp"])
def g_diag(I, rng):
    dom, infos = gen_dom(I, rng, maxsize=30)
    cplx = bool(rng.integers(0, 2))
    arg, spaces = pick_spaces(rng, len(infos))
    sub = I.DomainTuple.make(tuple(dom[i] for i in spaces))
    v = rarr(rng, sub.shape, cplx)
    f = I.makeField(sub, v)
    sd = [None, np.float64, np.complex128][int(rng.integers(0, 3))]
    desc = dict(dom=jd(infos), spaces=arg, cplx=cplx,
                sampling_dtype=None if sd is None else np.dtype(sd).name)
    full = len(spaces) == len(infos)
    u = int(rng.integers(0, 3))
    if full and u == 0:
        op = construct(desc, lambda: I.makeOp(f, sampling_dtype=sd))
    elif full and u == 1:
        op = construct(desc, lambda: I.DiagonalOperator(f, sampling_dtype=sd))
    else:
        op = construct(desc, lambda: I.DiagonalOperator(f, dom, arg, sd))
    shp = []
    for i, d in enumerate(infos):
        shp += list(d["shape"]) if i in spaces else [1] * len(d["shape"])
    vb = v.reshape(shp)
    return dict(op=op, desc=desc, ref=lambda a: vb * np.asarray(a), cap=15, keep=[("diagonal", f)],
                nontrivial=cplx or not full)


@reg("BlockDiagonalOperator", covers=["BlockDiagonalOperator", "makeOp"])
def g_blockdiag(I, rng):
    md, subs, infos = gen_mdom(I, rng, keys=("a", "b", "c")[:int(rng.integers(2, 4))], maxsize=6)
    via = bool(rng.integers(0, 3) == 0)
    arrs, ops, jdesc = {}, {}, {}
    for k in subs:
        u = int(rng.integers(0, 4))
        if u == 0 and not via:
            jdesc[k] = None
            continue
        cplx = bool(rng.integers(0, 2))
        arrs[k] = rarr(rng, subs[k].shape, cplx)
        sd = np.float64 if rng.integers(0, 3) == 0 else None
        ops[k] = I.DiagonalOperator(I.makeField(subs[k], arrs[k]), sampling_dtype=None if via else sd)
        jdesc[k] = ["diag", "c" if cplx else "f", None if (via or sd is None) else "f8"]
    desc = dict(dom={q: jd(v) for q, v in infos.items()}, ops=jdesc, via_makeOp=via)
    if via:
        mf = I.MultiField.from_dict({k: I.makeField(subs[k], arrs[k]) for k in subs})
        op = construct(desc, lambda: I.makeOp(mf))
    else:
        op = construct(desc, lambda: I.BlockDiagonalOperator(md, ops))
    ref = lambda d: {k: (arrs[k] * np.asarray(d[k]) if k in arrs else np.asarray(d[k])) for k in d}
    return dict(op=op, desc=desc, ref=ref, nontrivial=True)


@reg("SandwichOperator")
def g_sandwich(I, rng):
    dom, infos = gen_dom(I, rng, nsp=(1, 2), kinds=("RG", "U"), maxsize=12)
    n = dom.size
    cplx = bool(rng.integers(0, 2))
    # bun: matrix (flattened) or contraction or scaling ; cheese: diagonal / None
    u = int(rng.integers(0, 3))
    if u == 0:
        mat = L.bounded_matrix(rng, n, cplx)
        bun = I.MatrixProductOperator(dom, mat, flatten=True)
        B = lambda a: (mat @ np.asarray(a).reshape(-1)).reshape(dom.shape)
        BH = lambda a: (mat.conj().T @ np.asarray(a).reshape(-1)).reshape(dom.shape)
        mid = dom
    elif u == 1:
        bun = I.ContractionOperator(dom, 0)
        ax0 = axes_of(infos, 0)
        B = lambda a: np.sum(np.asarray(a), axis=ax0)
        BH = lambda a: np.broadcast_to(np.asarray(a).reshape((1,) * len(ax0) + np.asarray(a).shape),
                                       dom.shape)
        mid = bun.target
    else:
        c = complex(*np.round(rng.standard_normal(2), 3)) if cplx else r3(rng.uniform(0.5, 2))
        bun = I.ScalingOperator(dom, c)
        B = lambda a: c * np.asarray(a)
        BH = lambda a: np.conj(c) * np.asarray(a)
        mid = dom
    if rng.integers(0, 3) == 0:
        cheese, C = None, (lambda a: a)
    else:
        dv = rarr(rng, mid.shape, cplx)
        cheese = I.DiagonalOperator(I.makeField(mid, dv))
        C = lambda a: dv * np.asarray(a)
    desc = dict(dom=jd(infos), bun=["matrix", "contraction", "scaling"][u], cheese=cheese is not None,
                cplx=cplx)
    if cheese is None and rng.integers(0, 2):
        op = construct(desc, lambda: I.SandwichOperator.make(bun))
    else:
        op = construct(desc, lambda: I.SandwichOperator.make(bun, cheese))
    return dict(op=op, desc=desc, ref=lambda a: BH(C(B(a))), nontrivial=True)


@reg("PartialConjugate")
def g_partialconj(I, rng):
    from nifty.cl.operators.partial_conjugate import PartialConjugate
    md, subs, infos = gen_mdom(I, rng, keys=("a", "b", "c"), maxsize=6)
    k = int(rng.integers(0, 4))
    sel = sorted(str(x) for x in rng.choice(["a", "b", "c"], k, replace=False))
    desc = dict(dom={q: jd(v) for q, v in infos.items()}, keys=sel)
    op = construct(desc, lambda: PartialConjugate(md, sel))
    ref = lambda d: {q: (np.conj(np.asarray(v)) if q in sel else np.asarray(v)) for q, v in d.items()}
    return dict(op=op, desc=desc, ref=ref, cap=15, nontrivial=True)


@reg("MatrixProductOperator")
def g_matprod(I, rng):
    dom, infos = gen_dom(I, rng, nsp=(1, 1, 2), kinds=("RG", "U"), maxsize=16)
    cplx = bool(rng.integers(0, 3) == 0)
    shp = full_shape(infos)
    variants = ["flatten", "spaces", "sparse"]
    if len(infos) == 1:
        variants.append("plain")
    v = variants[int(rng.integers(0, len(variants)))]
    allax = tuple(range(len(shp)))

    def act(mat, axes):
        def fn(a):
            a = np.asarray(a)
            ash = tuple(a.shape[x] for x in axes)
            n = int(np.prod(ash))
            b = np.moveaxis(a, axes, tuple(range(len(axes))))
            r = (mat.reshape(n, n) @ b.reshape(n, -1)).reshape(ash + b.shape[len(axes):])
            return np.moveaxis(r, tuple(range(len(axes))), axes)
        return fn
    if v == "plain":     # matrix of shape domain.shape + domain.shape, no flatten, no spaces
        mat = L.bounded_matrix(rng, dom.size, cplx).reshape(shp + shp)
        desc = dict(dom=jd(infos), variant=v, cplx=cplx)
        op = construct(desc, lambda: I.MatrixProductOperator(dom, mat))
        ref = act(mat, allax)
    elif v == "flatten":
        mat = L.bounded_matrix(rng, dom.size, cplx)
        desc = dict(dom=jd(infos), variant=v, cplx=cplx)
        op = construct(desc, lambda: I.MatrixProductOperator(dom, mat, flatten=True))
        ref = act(mat, allax)
    elif v == "sparse":
        import scipy.sparse as sps
        mat = L.bounded_matrix(rng, dom.size, cplx)
        mat[np.abs(mat) < 0.3] = 0
        sm = sps.csr_matrix(mat)
        flat = len(shp) > 1 or bool(rng.integers(0, 2))
        desc = dict(dom=jd(infos), variant=v, cplx=cplx, flatten=flat)
        op = construct(desc, lambda: I.MatrixProductOperator(dom, sm, flatten=flat))
        ref = act(mat, allax)
    else:
        k = int(rng.integers(0, len(infos)))
        s = infos[k]["shape"]
        mat = L.bounded_matrix(rng, int(np.prod(s)), cplx).reshape(tuple(s) + tuple(s))
        desc = dict(dom=jd(infos), variant=v, cplx=cplx, space=k)
        op = construct(desc, lambda: I.MatrixProductOperator(dom, mat, spaces=(k,)))
        ref = act(mat, axes_of(infos, k))
    return dict(op=op, desc=desc, ref=ref, cap=3, nontrivial=cplx or v != "plain" or len(shp) > 1)


@reg("Adder", covers=["Adder"])
def g_adder(I, rng):
    """Jacobian of Adder (not a linear operator itself) at a random point"""
    dom, jdn, multi = _dom_any(I, rng)
    neg = bool(rng.integers(0, 2))
    if multi:
        a = I.MultiField.from_dict({k: I.makeField(dom[k], rarr(rng, dom[k].shape)) for k in dom.keys()})
        x = I.MultiField.from_dict({k: I.makeField(dom[k], rarr(rng, dom[k].shape)) for k in dom.keys()})
    else:
        a = I.makeField(dom, rarr(rng, dom.shape))
        x = I.makeField(dom, rarr(rng, dom.shape))
    desc = dict(dom=jdn, neg=neg)
    ad = construct(desc, lambda: I.Adder(a, neg=neg))
    lin = construct(desc, lambda: ad(I.Linearization.make_var(x)))
    op = lin.jac
    xa, aa = L.field_to_arr(x), L.field_to_arr(a)
    expv = _sub(xa, aa) if neg else _add(xa, aa)
    got = L.field_to_arr(lin.val)
    ok = all(np.allclose(got[k], expv[k]) for k in got) if multi else np.allclose(got, expv)
    return dict(op=op, desc=desc, ref=_map(lambda z: z), expect=[("value", bool(ok), True)],
                keep=[("a", a)], nontrivial=True)


def _add(x, y):
    return {k: x[k] + y[k] for k in x} if isinstance(x, dict) else x + y


def _sub(x, y):
    return {k: x[k] - y[k] for k in x} if isinstance(x, dict) else x - y


# -------------------------------------------------------------- interpolation ---
@reg("LinearInterpolator")
def g_lininterp(I, rng):
    u = int(rng.integers(0, 3))
    if u == 0:
        items = [sp_rg(I, rng, maxn=5, ndim=1, harmonic=False)]
    elif u == 1:
        items = [sp_rg(I, rng, maxn=4, ndim=2, harmonic=False)]
    else:
        items = [sp_rg(I, rng, maxn=4, ndim=1, harmonic=False), sp_rg(I, rng, maxn=4, ndim=1, harmonic=False)]
    dom = I.DomainTuple.make(tuple(s for s, _ in items))
    infos = [d for _, d in items]
    shp = full_shape(infos)
    dist = np.array([x for d in infos for x in d["rdist"]])
    ext = dist * np.array(shp)
    npts = int(rng.integers(1, 6))
    # positions inside, outside (periodic wrap) and exactly on grid points
    pos = rng.uniform(-0.5, 1.5, (len(shp), npts)) * ext[:, None]
    if rng.integers(0, 3) == 0:
        pos[:, 0] = dist * rng.integers(0, np.array(shp))
    desc = dict(dom=jd(infos), points=np.round(pos, 6).tolist())
    pos = np.round(pos, 6)
    op = construct(desc, lambda: I.LinearInterpolator(dom, pos))
    nd = len(shp)

    def ref(a):
        a = np.asarray(a)
        out = np.zeros(npts, dtype=a.dtype)
        for p in range(npts):
            t = pos[:, p] / dist
            i0 = np.floor(t).astype(int)
            fr = t - i0
            acc = 0
            for corner in range(2 ** nd):
                bits = [(corner >> b) & 1 for b in range(nd)]
                w = 1.0
                idx = []
                for b in range(nd):
                    w *= fr[b] if bits[b] else (1.0 - fr[b])
                    idx.append((i0[b] + bits[b]) % shp[b])
                acc = acc + w * a[tuple(idx)]
            out[p] = acc
        return out
    return dict(op=op, desc=desc, ref=ref, cap=3, keep=[("points", pos)],
                expect=[("target", op.target, I.DomainTuple.make(I.UnstructuredDomain(npts)))],
                nontrivial=True)


# --------------------------------------------------------- enablers / wrappers ---
def _spd(I, rng, dom):
    n = dom.size
    A = L.bounded_matrix(rng, n, False, 0.7, 1.6)
    d = rng.uniform(0.5, 2.0, dom.shape)
    mat = I.MatrixProductOperator(dom, A, flatten=True)
    op = I.SandwichOperator.make(mat, I.DiagonalOperator(I.makeField(dom, d)))
    fn = lambda a: (A.T @ (d.reshape(-1) * (A @ np.asarray(a).reshape(-1)))).reshape(dom.shape)
    return op, fn


@reg("InversionEnabler")
def g_invenabler(I, rng):
    dom, infos = gen_dom(I, rng, nsp=(1, 2), kinds=("RG", "U"), maxsize=10)
    op0, fn = _spd(I, rng, dom)
    ic = I.GradientNormController(tol_abs_gradnorm=1e-13, iteration_limit=200)
    approx = bool(rng.integers(0, 2))
    desc = dict(dom=jd(infos), approximation=approx)
    ap = None
    if approx:
        ap = I.DiagonalOperator(I.makeField(dom, rng.uniform(0.8, 1.2, dom.shape)))
    op = construct(desc, lambda: I.InversionEnabler(op0, ic, approximation=ap))
    return dict(op=op, desc=desc, ref=fn, cap=15, inv_rtol=1e-6, nontrivial=True)


@reg("SamplingEnabler")
def g_sampenabler(I, rng):
    dom, infos = gen_dom(I, rng, nsp=(1,), kinds=("RG", "U"), maxsize=8)
    lh, f1 = _spd(I, rng, dom)
    d = rng.uniform(0.5, 2.0, dom.shape)
    prior = I.DiagonalOperator(I.makeField(dom, d), sampling_dtype=np.float64)
    ic = I.GradientNormController(tol_abs_gradnorm=1e-10, iteration_limit=100)
    desc = dict(dom=jd(infos))
    op = construct(desc, lambda: I.SamplingEnabler(lh, prior, ic))
    return dict(op=op, desc=desc, ref=lambda a: f1(a) + d * np.asarray(a), cap=3, nontrivial=True)


@reg("JaxLinearOperator")
def g_jaxlin(I, rng):
    try:
        import jax.numpy as jnp
    except ImportError:
        raise Unavailable("jax")
    dom, infos = gen_dom(I, rng, nsp=(1, 2), kinds=("RG", "U"), maxsize=8)
    tgt, tinfos = gen_dom(I, rng, nsp=(1, 2), kinds=("RG", "U"), maxsize=8)
    cplx = bool(rng.integers(0, 2))
    n, m = dom.size, tgt.size
    A = rng.standard_normal((m, n)) + (1j * rng.standard_normal((m, n)) if cplx else 0)
    Aj = jnp.asarray(A)
    func = lambda x: (Aj @ x.reshape(-1)).reshape(tgt.shape)
    explicit_T = bool(rng.integers(0, 2))
    desc = dict(dom=jd(infos), tgt=jd(tinfos), cplx=cplx, explicit_T=explicit_T)
    if explicit_T:
        # func_T is the *transposed* (not adjoint) action
        func_T = lambda y: (Aj.T @ y.reshape(-1)).reshape(dom.shape)
        op = construct(desc, lambda: I.JaxLinearOperator(dom, tgt, func, func_T=func_T))
        kinds = {}
    else:
        dt = np.complex128 if cplx else np.float64
        op = construct(desc, lambda: I.JaxLinearOperator(dom, tgt, func, domain_dtype=dt))
        # jax.linear_transpose is built for the declared domain dtype only
        kinds = {TIMES: "c", ADJ: "c"} if cplx else {TIMES: "f", ADJ: "f"}
    ref = lambda a: (A @ np.asarray(a).reshape(-1)).reshape(tgt.shape)
    return dict(op=op, desc=desc, ref=ref, cap=3, kinds=kinds, nontrivial=True)


@reg("FuncConvolutionOperator", covers=["FuncConvolutionOperator", "_ApplicationWithoutMeanOperator"])
def g_funcconv(I, rng):
    u = int(rng.integers(0, 4))
    if u <= 1:
        sp, inf = sp_rg(I, rng, maxn=6, harmonic=False)
    elif u == 2:
        sp, inf = sp_hp(I, rng)
    else:
        sp, inf = sp_gl(I, rng)
        while inf["nlat"] < 2:
            sp, inf = sp_gl(I, rng)
    multi = bool(rng.integers(0, 2))
    if multi:
        dom, infos = gen_dom(I, rng, nsp=(2,), kinds=("RG", "U"), maxsize=30, first=(sp, inf))
        space = [i for i, d in enumerate(infos) if d is inf][0]
    else:
        dom, infos, space = I.DomainTuple.make(sp), [inf], 0
    sig = r3(rng.uniform(0.3, 1.5))
    func = lambda x: np.exp(-0.5 * (x / sig) ** 2)
    desc = dict(dom=jd(infos), space=space if multi else None, sigma=sig)
    op = construct(desc, lambda: I.FuncConvolutionOperator(dom, func, space=space if multi else None))
    return dict(op=op, desc=desc, ref=None, cap=3, nontrivial=True)


# ------------------------------------------------------------- library: nft/los ---
@reg("Gridder")
def g_gridder(I, rng):
    shp = (int(2 * rng.integers(1, 3)), int(2 * rng.integers(1, 3)))
    dist = (r3(np.exp(rng.uniform(-4, -2))), r3(np.exp(rng.uniform(-4, -2))))
    sp = I.RGSpace(shp, distances=dist)
    tgt = I.DomainTuple.make(sp)
    nvis = int(rng.integers(1, 6))
    uv = np.round(rng.uniform(-0.4, 0.4, (nvis, 2)) / np.array(dist), 4)
    eps = [2e-10, 1e-7, 1e-12][int(rng.integers(0, 3))]
    desc = dict(shape=shp, dist=dist, uv=uv.tolist(), eps=eps)
    if eps == 2e-10 and rng.integers(0, 2):
        op = construct(desc, lambda: I.Gridder(tgt, uv))
    else:
        op = construct(desc, lambda: I.Gridder(tgt, uv, eps))
    # complex visibilities in, real dirty image out (and back).  Reference: direct sum
    # I(l,m) = Re sum_j vis_j exp(+2 pi i (u_j l + v_j m)), l = (i - nx/2) dx, m = (k - ny/2) dy
    # (ducc's ms2dirty convention at w = 0, wavelength 1; NIFTy documents only "non-uniform FFT")
    lgrid = (np.arange(shp[0]) - shp[0] // 2) * dist[0]
    mgrid = (np.arange(shp[1]) - shp[1] // 2) * dist[1]

    def ref(a):
        a = np.asarray(a).astype(np.complex128)
        r = np.zeros(shp, dtype=np.complex128)
        for j in range(nvis):
            r += a[j] * np.exp(2j * np.pi * (uv[j, 0] * lgrid[:, None] + uv[j, 1] * mgrid[None, :]))
        return r.real
    return dict(op=op, desc=desc, ref=ref, cap=3, kinds={TIMES: "c", ADJ: "f"}, rtol=max(1e-9, 500 * eps),
                ref_rtol=max(1e-9, 500 * eps), keep=[("uv", uv)], nontrivial=True)


@reg("Nufft")
def g_nufft(I, rng):
    nd = int(rng.integers(1, 4))
    shp = tuple(int(2 * rng.integers(1, 3)) for _ in range(nd))
    dist = tuple(r3(np.exp(rng.uniform(-1, 1))) for _ in range(nd))
    sp = I.RGSpace(shp, distances=dist)
    tgt = I.DomainTuple.make(sp)
    npnt = int(rng.integers(1, 6))
    pos = np.round(rng.uniform(-1, 1, (npnt, nd)) / np.array(dist), 4)
    eps = [2e-10, 1e-7, 1e-12][int(rng.integers(0, 3))]
    desc = dict(shape=shp, dist=dist, pos=pos.tolist(), eps=eps)
    op = construct(desc, lambda: I.Nufft(tgt, pos, eps))
    # reference: direct sum  out[k] = Re sum_j x_j exp(+i k.c_j), c_j = 2 pi pos_j * distances,
    # k_a = index_a - N_a/2  (ducc's nu2u convention with forward=False, centred grid)
    cc = 2 * np.pi * pos * np.array(dist)
    ks = np.meshgrid(*[np.arange(n) - n // 2 for n in shp], indexing="ij")

    def ref(a):
        a = np.asarray(a).astype(np.complex128)
        r = np.zeros(shp, dtype=np.complex128)
        for j in range(npnt):
            ph = sum(ks[b] * cc[j, b] for b in range(nd))
            r += a[j] * np.exp(1j * ph)
        return r.real
    return dict(op=op, desc=desc, ref=ref, cap=3, kinds={TIMES: "c", ADJ: "f"}, rtol=max(1e-9, 500 * eps),
                ref_rtol=max(1e-9, 500 * eps), keep=[("pos", pos)], nontrivial=True)


def _segment_lengths(shape, dist, start, end):
    """length of the straight segment start->end inside every pixel; pixel i is centred at i*dist
    (covers [(i-1/2) dist, (i+1/2) dist]), no periodicity — by clipping the segment against
    each pixel box (Liang-Barsky)"""
    nd = len(shape)
    out = np.zeros(shape)
    d = end - start
    tot = np.linalg.norm(d)
    for idx in np.ndindex(*shape):
        t0, t1 = 0.0, 1.0
        ok = True
        for b in range(nd):
            lo, hi = (idx[b] - 0.5) * dist[b], (idx[b] + 0.5) * dist[b]
            if d[b] == 0:
                if not (lo <= start[b] <= hi):
                    ok = False
                    break
                continue
            ta, tb = (lo - start[b]) / d[b], (hi - start[b]) / d[b]
            if ta > tb:
                ta, tb = tb, ta
            t0, t1 = max(t0, ta), min(t1, tb)
            if t0 >= t1:
                ok = False
                break
        if ok:
            out[idx] = (t1 - t0) * tot
    return out


@reg("LOSResponse")
def g_los(I, rng):
    sp, inf = sp_rg(I, rng, maxn=5, harmonic=False, dist="explicit")
    if inf["dist"] is None:
        raise Unavailable("dist")
    shp, dist = inf["shape"], np.array(inf["rdist"])
    nd = len(shp)
    nlos = int(rng.integers(1, 5))
    ext = dist * np.array(shp)
    # generic positions (not on pixel borders), partly outside the volume
    starts = rng.uniform(-0.3, 1.1, (nd, nlos)) * ext[:, None]
    ends = rng.uniform(-0.3, 1.1, (nd, nlos)) * ext[:, None]
    starts, ends = np.round(starts, 5), np.round(ends, 5)
    desc = dict(dom=jd([inf]), starts=starts.tolist(), ends=ends.tolist())
    op = construct(desc, lambda: I.LOSResponse(I.DomainTuple.make(sp) if rng.integers(0, 2) else sp,
                                               starts.copy(), ends.copy()))
    W = np.stack([_segment_lengths(shp, dist, starts[:, i], ends[:, i]) for i in range(nlos)])

    def ref(a):
        a = np.asarray(a)
        return np.tensordot(W, a, axes=nd)
    return dict(op=op, desc=desc, ref=ref, cap=3, ref_rtol=2e-5, nontrivial=True,
                keep=[("starts", starts), ("ends", ends)])


@reg("WienerFilterCurvature")
def g_wfc(I, rng):
    dom, infos = gen_dom(I, rng, nsp=(1, 2), kinds=("RG", "U"), maxsize=8)
    n = dom.size
    A = L.bounded_matrix(rng, n, False, 0.7, 1.6)
    R = I.MatrixProductOperator(dom, A, flatten=True)
    nv = rng.uniform(0.5, 2.0, dom.shape)
    sv = rng.uniform(0.5, 2.0, dom.shape)
    N = I.DiagonalOperator(I.makeField(dom, nv), sampling_dtype=np.float64)
    S = I.DiagonalOperator(I.makeField(dom, sv), sampling_dtype=np.float64)
    ic = I.GradientNormController(tol_abs_gradnorm=1e-13, iteration_limit=200)
    samp = bool(rng.integers(0, 2))
    desc = dict(dom=jd(infos), sampling_controller=samp)
    op = construct(desc, lambda: I.WienerFilterCurvature(R, N, S, ic, ic if samp else None))
    ref = lambda a: (A.T @ ((A @ np.asarray(a).reshape(-1)) / nv.reshape(-1))).reshape(dom.shape) \
        + np.asarray(a) / sv
    return dict(op=op, desc=desc, ref=ref, cap=15, inv_rtol=1e-6, nontrivial=True)
