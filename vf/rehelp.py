"""Shared helpers for the nifty.re (JAX) checks C12 / C29 / C30 / C33.

Real-coordinate representation of pytrees: the leaves are visited in
``jax.tree_util.tree_leaves`` order; a real leaf contributes ``ravel()``, a
complex leaf contributes ``[Re.ravel(), Im.ravel()]``.  A real-linear map
between two pytree spaces is then a plain real matrix and "adjoint" (also for
complex spaces with the real-part inner product, which is what NIFTy's
``_functional_conj(vjp)`` implements) is the matrix transpose.

Nothing in here imports nifty at module import time.
"""
import numpy as np


def jx():
    import jax
    return jax


def leaves(tree):
    import jax
    return jax.tree_util.tree_leaves(tree)


def _shape_dtype(x):
    shp = tuple(x.shape) if hasattr(x, "shape") else np.shape(x)
    dt = np.dtype(x.dtype) if hasattr(x, "dtype") else np.result_type(x)
    return shp, dt


def tree_real_size(tree):
    n = 0
    for l in leaves(tree):
        shp, dt = _shape_dtype(l)
        n += int(np.prod(shp, dtype=int)) * (2 if np.issubdtype(dt, np.complexfloating) else 1)
    return n


def tree_to_real(tree):
    """pytree of arrays -> 1-d float64 numpy vector (real coordinates)"""
    parts = []
    for l in leaves(tree):
        a = np.asarray(l)
        if np.iscomplexobj(a):
            parts.append(a.real.ravel().astype(np.float64))
            parts.append(a.imag.ravel().astype(np.float64))
        else:
            parts.append(a.ravel().astype(np.float64))
    return np.concatenate(parts) if parts else np.zeros(0)


def real_to_tree(vec, template, as_jax=True):
    """inverse of tree_to_real for the structure/shapes/dtypes of ``template``
    (a pytree of arrays or of objects with .shape/.dtype)."""
    import jax
    import jax.numpy as jnp
    lv, td = jax.tree_util.tree_flatten(template)
    out, o = [], 0
    vec = np.asarray(vec, dtype=np.float64)
    for l in lv:
        shp, dt = _shape_dtype(l)
        n = int(np.prod(shp, dtype=int))
        if np.issubdtype(dt, np.complexfloating):
            a = (vec[o:o + n] + 1j * vec[o + n:o + 2 * n]).reshape(shp)
            o += 2 * n
        else:
            a = vec[o:o + n].reshape(shp)
            if not np.issubdtype(dt, np.floating):
                a = a.astype(np.float64)
            o += n
        out.append(jnp.asarray(a) if as_jax else a)
    assert o == vec.size, (o, vec.size)
    return jax.tree_util.tree_unflatten(td, out)


def dense_map(fn, in_template, n_out=None):
    """real matrix of the (real-)linear map ``fn`` (pytree -> pytree) by probing
    with the real basis vectors of the space described by ``in_template``."""
    n = tree_real_size(in_template)
    cols = []
    for j in range(n):
        e = np.zeros(n)
        e[j] = 1.0
        y = fn(real_to_tree(e, in_template))
        cols.append(tree_to_real(y))
    if not cols:
        return np.zeros((n_out or 0, 0))
    return np.stack(cols, axis=1)


def real_fn(fn, in_template):
    """f: pytree -> pytree  ==>  g: real vector (jax) -> real vector (jax); for jacfwd oracles"""
    import jax
    import jax.numpy as jnp
    lv, td = jax.tree_util.tree_flatten(in_template)
    meta = [_shape_dtype(l) for l in lv]

    def g(v):
        out, o = [], 0
        for shp, dt in meta:
            n = int(np.prod(shp, dtype=int))
            if np.issubdtype(dt, np.complexfloating):
                out.append((v[o:o + n] + 1j * v[o + n:o + 2 * n]).reshape(shp))
                o += 2 * n
            else:
                out.append(v[o:o + n].reshape(shp))
                o += n
        y = fn(jax.tree_util.tree_unflatten(td, out))
        parts = []
        for l in jax.tree_util.tree_leaves(y):
            l = jnp.asarray(l)
            if jnp.iscomplexobj(l):
                parts += [l.real.ravel(), l.imag.ravel()]
            else:
                parts.append(l.ravel())
        return jnp.concatenate(parts)
    return g


def jac_real(fn, point_tree):
    """dense real Jacobian of a pytree function at ``point_tree`` by forward-mode autodiff:
    ``jax.linearize`` once, then the linear map is applied to every real basis tangent
    (same shapes as the primal evaluation, so eager mode compiles nothing new)."""
    import jax
    _, fwd = jax.linearize(fn, point_tree)
    return dense_map(fwd, point_tree)


def jac_real_jacfwd(fn, point_tree):
    """same via jax.jacfwd on the flattened function (one vmapped trace)"""
    import jax
    import jax.numpy as jnp
    g = real_fn(fn, point_tree)
    v = jnp.asarray(tree_to_real(point_tree))
    return np.asarray(jax.jacfwd(g)(v))


def maxabs(a):
    a = np.asarray(a)
    return float(np.max(np.abs(a))) if a.size else 0.0


def close(a, b, rtol=1e-9, atol=1e-300):
    """norm-wise closeness  max|a-b| <= rtol*(max|a|+max|b|) + atol  (DESIGN §4)"""
    a, b = np.asarray(a), np.asarray(b)
    if a.shape != b.shape:
        return False
    if not (np.all(np.isfinite(a)) and np.all(np.isfinite(b))):
        return False
    return maxabs(a - b) <= rtol * (maxabs(a) + maxabs(b)) + atol


def dev(a, b):
    a, b = np.asarray(a), np.asarray(b)
    if a.shape != b.shape:
        return f"shape {a.shape} vs {b.shape}"
    return float(maxabs(a - b))


def rand_spd(rng, n, lo=0.5, hi=4.0, cplx=False):
    """random symmetric/Hermitian positive definite matrix with spectrum in [lo, hi]"""
    if cplx:
        a = rng.standard_normal((n, n)) + 1j * rng.standard_normal((n, n))
    else:
        a = rng.standard_normal((n, n))
    q, _ = np.linalg.qr(a)
    w = np.exp(rng.uniform(np.log(lo), np.log(hi), n))
    return (q * w) @ q.conj().T, q, w


def cmat_to_real_blocks(M):
    """complex m x n matrix -> real 2m x 2n matrix for the [Re.., Im..] layout"""
    M = np.asarray(M)
    return np.block([[M.real, -M.imag], [M.imag, M.real]])


def silence_nifty_logger():
    import logging
    for name in ("NIFTy", "nifty", "jax._src.xla_bridge"):
        logging.getLogger(name).setLevel(logging.ERROR)
    try:
        from nifty.re.logger import logger
        logger.setLevel(logging.ERROR)
    except Exception:
        pass


def unflat_jax(v, template):
    """traceable inverse of the real-coordinate flattening (jax arrays in, pytree out)"""
    import jax
    import jax.numpy as jnp
    lv, td = jax.tree_util.tree_flatten(template)
    meta = [_shape_dtype(l) for l in lv]
    sizes = []
    for shp, dt in meta:
        n = int(np.prod(shp, dtype=int))
        sizes += [n, n] if np.issubdtype(dt, np.complexfloating) else [n]
    parts = jnp.split(v, np.cumsum(sizes)[:-1].tolist()) if len(sizes) > 1 else [v]
    out, k = [], 0
    for shp, dt in meta:
        if np.issubdtype(dt, np.complexfloating):
            out.append((parts[k] + 1j * parts[k + 1]).reshape(shp))
            k += 2
        else:
            out.append(parts[k].reshape(shp))
            k += 1
    return jax.tree_util.tree_unflatten(td, out)


def enable_compile_cache():
    """Persistent XLA compilation cache under /verif/scratch/jaxcache (git-ignored).

    The nifty.re checks run NIFTy un-jitted, so every (primitive, shape, dtype) combination is
    compiled as its own tiny XLA executable; with a cold cache that is most of the run time.
    The cache is keyed by the HLO module / jaxlib version / compile options, i.e. it can only
    return what a fresh compilation would produce; it is an optimisation, never an input of a
    verdict.  Any failure to set it up is ignored."""
    import os
    try:
        import jax
        root = os.path.dirname(os.path.dirname(os.path.abspath(__file__)))
        path = os.path.join(root, "scratch", "jaxcache")
        os.makedirs(path, exist_ok=True)
        jax.config.update("jax_compilation_cache_dir", path)
        jax.config.update("jax_persistent_cache_min_compile_time_secs", 0.0)
        jax.config.update("jax_persistent_cache_min_entry_size_bytes", -1)
    except Exception:
        pass
