"""Shared helpers for the nifty.re solver checks (C15 conjugate gradient, C17 Newton, C32 HMC).

* pytree *layouts*: a fixed, small family of position shapes (plain arrays, ``Vector`` of
  dict/tuple/list with 0-d/1-d/2-d leaves, real and complex) — a small family so that compiled
  variants are compiled once per layout and worker ("bucketing").
* flat <-> pytree conversion that works on numpy arrays, jax arrays and tracers.
* dense matrix generators (HPD, indefinite, negative definite, singular) with bounded spectra.
* smooth non-convex objective families on flat R^n (value in jax.numpy; gradient / Hessian by
  jax autodiff of *this* code, i.e. independent of NIFTy).
* small numeric utilities (quadratic energy, p-norms, parallelism test, tie margin).

Nothing in here imports NIFTy at module import time; ``Layout.wrap`` imports ``nifty.re.Vector``
lazily (the layouts have to be NIFTy's own container type, everything else is plain numpy/jax).
"""
import numpy as np

TIE = 1e-7      # relative tie margin for discrete decisions (DESIGN §4)


# --------------------------------------------------------------------------- layouts ---
class S:
    """leaf marker: shape of an array leaf"""

    def __init__(self, *shape):
        self.shape = tuple(shape)
        self.size = int(np.prod(shape)) if shape else 1

    def __repr__(self):
        return f"S{self.shape}"


# leaf shapes are drawn from a small common set ((), (1,), (3,), (2,2), (8,), (4,4)) so that the
# eagerly dispatched jax primitives of the Python-loop solvers are compiled only a few times
_SPECS = {
    # name: (spec, wrap in Vector?, complex?)
    "a1": (S(1), False, False),
    "a3": (S(3), False, False),
    "a4x4": (S(4, 4), False, False),
    "vd7": ({"a": S(3), "b": S(2, 2)}, True, False),
    "vt8": ((S(3), S(), S(2, 2)), True, False),
    "vl24": ([S(8), {"u": S(4, 4)}], True, False),
    "vd2": ({"x": S(), "y": S(1)}, True, False),
    "vn16": ({"k": (S(3), [S(2, 2), S(1)]), "m": S(8)}, True, False),
    "c3": (S(3), False, True),
    "vc7": ({"a": S(3), "b": S(2, 2)}, True, True),
}
REAL_LAYOUTS = [k for k, v in _SPECS.items() if not v[2]]
CPLX_LAYOUTS = [k for k, v in _SPECS.items() if v[2]]
ALL_LAYOUTS = list(_SPECS)


class Layout:
    def __init__(self, name):
        from jax.tree_util import tree_structure, tree_leaves
        self.name = name
        spec, self.vector, self.cplx = _SPECS[name]
        isl = lambda x: isinstance(x, S)
        self.treedef = tree_structure(spec, is_leaf=isl)
        self.leaves = tree_leaves(spec, is_leaf=isl)
        self.n = sum(l.size for l in self.leaves)
        self.dtype = np.complex128 if self.cplx else np.float64

    def wrap(self, v):
        """flat vector (numpy / jax / tracer) -> pytree position"""
        import jax.numpy as jnp
        if isinstance(v, np.ndarray):       # numpy slicing: no jax dispatch per leaf
            conv = lambda a: jnp.asarray(a)
        else:
            conv = lambda a: a
        out, o = [], 0
        for l in self.leaves:
            out.append(conv(v[o:o + l.size].reshape(l.shape)))
            o += l.size
        t = self.treedef.unflatten(out)
        if self.vector:
            from nifty.re import Vector
            t = Vector(t)
        return t

    def flat(self, t):
        """pytree position -> flat jax vector"""
        import jax.numpy as jnp
        from jax.tree_util import tree_leaves
        return jnp.concatenate([jnp.ravel(x) for x in tree_leaves(t)])

    def flat_np(self, t):
        from jax.tree_util import tree_leaves
        return np.concatenate([np.asarray(x).ravel() for x in tree_leaves(t)])

    def matfun(self, A):
        """the linear map ``x -> A x`` on pytree positions (A dense on the flat vector); traceable"""
        def mat(x):
            return self.wrap(A @ self.flat(x))
        return mat

    def matfun_eager(self, A):
        """same map for eager (Python loop) solvers: one jitted kernel per layout, A as argument"""
        import jax
        import jax.numpy as jnp
        if not hasattr(self, "_matj"):
            self._matj = jax.jit(lambda A, x: self.wrap(A @ self.flat(x)))
        Aj = jnp.asarray(A)
        return lambda x: self._matj(Aj, x)


_LAYOUT_CACHE = {}


def layout(name):
    if name not in _LAYOUT_CACHE:
        _LAYOUT_CACHE[name] = Layout(name)
    return _LAYOUT_CACHE[name]


# ------------------------------------------------------------------- dense matrices ---
def rand_unitary(rng, n, cplx):
    M = rng.standard_normal((n, n))
    if cplx:
        M = M + 1j * rng.standard_normal((n, n))
    Q, R = np.linalg.qr(M)
    return Q * (np.diagonal(R) / np.abs(np.diagonal(R)))


def spectrum(rng, n, lo, hi, mode):
    """n positive numbers in [lo, hi]"""
    if mode == "log":
        ev = np.exp(rng.uniform(np.log(lo), np.log(hi), n))
    elif mode == "cluster":      # few distinct eigenvalues -> CG converges in few steps
        k = int(rng.integers(1, min(n, 4) + 1))
        base = np.exp(rng.uniform(np.log(lo), np.log(hi), k))
        ev = base[rng.integers(0, k, n)]
    elif mode == "lin":
        ev = rng.uniform(lo, hi, n)
    else:
        raise ValueError(mode)
    if n >= 2 and mode != "cluster":
        ev[int(rng.integers(0, n))] = lo
        ev[(int(np.argmin(ev)) + 1) % n] = hi
    return ev


def herm_from_spectrum(rng, ev, cplx, basis="rot"):
    n = len(ev)
    if basis == "diag":
        p = rng.permutation(n)
        return np.diag(np.asarray(ev, dtype=float)[p]).astype(complex if cplx else float)
    Q = rand_unitary(rng, n, cplx)
    A = (Q * ev) @ Q.conj().T
    return (A + A.conj().T) / 2


def quad_energy(A, j, x):
    """0.5 x^H A x - Re j^H x  (dense, independent)"""
    x = np.asarray(x)
    return float(0.5 * np.real(np.vdot(x, A @ x)) - np.real(np.vdot(j, x)))


def pnorm(v, ord_):
    v = np.abs(np.asarray(v)).ravel()
    if ord_ is None or ord_ == 2:
        return float(np.sqrt(np.sum(v * v)))
    if ord_ == 1:
        return float(np.sum(v))
    if ord_ == np.inf:
        return float(np.max(v)) if v.size else 0.0
    raise ValueError(ord_)


def parallel_coeff(step, direction):
    """least-squares coefficient c with step ~ c*direction and the relative misfit"""
    step = np.asarray(step).ravel()
    direction = np.asarray(direction).ravel()
    dd = np.real(np.vdot(direction, direction))
    if dd == 0:
        return 0.0, np.inf
    c = np.real(np.vdot(direction, step)) / dd
    mis = np.linalg.norm(step - c * direction)
    ref = np.linalg.norm(step)
    return float(c), float(mis / ref) if ref > 0 else 0.0


def near(a, b, rel=TIE, abs_=0.0):
    return abs(a - b) <= rel * max(abs(a), abs(b)) + abs_


# -------------------------------------------------------------- objective families ---
# Every family is a function  f(params, x) -> scalar  on flat real x written in jax.numpy.
# params is a dict of arrays (passed as *arguments* to jitted code, so one compilation serves
# all parameter draws of a (family, layout) bucket).
FAMILIES = ["trig", "dwell", "rosen", "iquad"]


def fam_params(rng, fam, n):
    if fam == "trig":
        K = 4
        return dict(a=rng.uniform(0.3, 1.5, K), W=rng.standard_normal((K, n)) * rng.uniform(0.5, 1.5),
                    ph=rng.uniform(0, 2 * np.pi, K), c=np.array(rng.uniform(0.05, 0.5)))
    if fam == "dwell":
        C = rng.standard_normal((n, n)) * 0.15
        return dict(s=rng.uniform(0.5, 2.0, n), b=rng.uniform(0.6, 1.6, n), C=(C + C.T) / 2 * (n > 1),
                    t=rng.standard_normal(n) * 0.2)
    if fam == "rosen":
        return dict(k=np.array(rng.uniform(2.0, 30.0)), a=rng.uniform(0.5, 1.5, n))
    if fam == "iquad":
        ev = rng.uniform(0.3, 2.0, n) * np.where(rng.random(n) < 0.5, -1.0, 1.0)
        if n >= 2:
            ev[0], ev[1] = -abs(ev[0]), abs(ev[1])
        else:
            ev[0] = -abs(ev[0])
        Q = rand_unitary(rng, n, False)
        A = (Q * ev) @ Q.T
        return dict(A=(A + A.T) / 2, b=rng.standard_normal(n) * 0.5, kap=np.array(rng.uniform(0.2, 1.0)))
    raise ValueError(fam)


def fam_value(fam, p, x):
    import jax.numpy as jnp
    if fam == "trig":
        return jnp.sum(p["a"] * jnp.cos(p["W"] @ x + p["ph"])) + 0.5 * p["c"] * jnp.sum(x * x)
    if fam == "dwell":
        return (jnp.sum(0.25 * p["s"] * (x * x - p["b"] ** 2) ** 2) + 0.5 * x @ (p["C"] @ x)
                + jnp.sum(p["t"] * x))
    if fam == "rosen":
        if x.shape[0] == 1:
            return p["k"] * (x[0] ** 2 - p["a"][0]) ** 2 + (1.0 - x[0]) ** 2
        return jnp.sum(p["k"] * (x[1:] - p["a"][:-1] * x[:-1] ** 2) ** 2 + (1.0 - x[:-1]) ** 2)
    if fam == "iquad":
        return 0.5 * x @ (p["A"] @ x) - jnp.sum(p["b"] * x) + 0.25 * p["kap"] * jnp.sum(x ** 4)
    raise ValueError(fam)
