"""Dense real matrices of linear maps by probing with basis vectors (DESIGN §3.3).

A space with complex entries is treated as R^{2n}: coordinates are
(Re x_0 … Re x_{n-1}, Im x_0 … Im x_{n-1}).  A complex-linear map with complex
matrix M has the real matrix [[Re M, -Im M], [Im M, Re M]]; its adjoint
(conjugate transpose) has the transposed real matrix.  So "adjoint" is always
"transpose of the real matrix", also for merely real-linear operators.
"""
import numpy as np


def _I():
    import nifty.cl as ift
    return ift


# ---------------------------------------------------------------- flatten ---
def dom_size(dom):
    I = _I()
    if isinstance(dom, I.MultiDomain):
        return sum(dom[k].size for k in dom.keys())
    return dom.size


def to_vec(f, cplx):
    """Field/MultiField -> real coordinate vector (cplx: use R^{2n} layout)"""
    I = _I()
    if isinstance(f, I.MultiField):
        parts = [np.asarray(f[k].asnumpy()).reshape(-1) for k in f.domain.keys()]
        v = np.concatenate(parts) if parts else np.zeros(0)
    else:
        v = np.asarray(f.asnumpy()).reshape(-1)
    if cplx:
        return np.concatenate([v.real, v.imag]).astype(np.float64)
    if np.iscomplexobj(v):
        if np.max(np.abs(v.imag), initial=0.0) > 0:
            raise ValueError("complex output in real layout")
        v = v.real
    return v.astype(np.float64)


def from_vec(dom, v, cplx):
    I = _I()
    n = dom_size(dom)
    if cplx:
        z = v[:n] + 1j * v[n:]
    else:
        z = np.array(v[:n], dtype=np.float64)
    if isinstance(dom, I.MultiDomain):
        d, o = {}, 0
        for k in dom.keys():
            s = dom[k].size
            d[k] = I.makeField(dom[k], z[o:o + s].reshape(dom[k].shape).copy())
            o += s
        return I.MultiField.from_dict(d, dom)
    return I.makeField(dom, z.reshape(dom.shape).copy())


def dense_of_callable(fn, dom_in, dom_out, cplx_in, cplx_out):
    """real matrix of x -> fn(x) (fn: Field->Field), assumed (real-)linear"""
    n = dom_size(dom_in) * (2 if cplx_in else 1)
    m = dom_size(dom_out) * (2 if cplx_out else 1)
    M = np.zeros((m, n))
    for j in range(n):
        e = np.zeros(n)
        e[j] = 1.0
        y = fn(from_vec(dom_in, e, cplx_in))
        M[:, j] = to_vec(y, cplx_out)
    return M


def dense_op(op, mode=None, cplx_in=False, cplx_out=None):
    """real matrix of a NIFTy LinearOperator in ``mode`` (default TIMES)"""
    if mode is None:
        mode = op.TIMES
    if cplx_out is None:
        cplx_out = cplx_in
    din = op._dom(mode)
    dout = op._tgt(mode)
    return dense_of_callable(lambda x: op.apply(x, mode), din, dout, cplx_in, cplx_out)


def cmat_to_real(M):
    """complex matrix (m×n) -> real 2m×2n matrix in the layout above"""
    M = np.asarray(M)
    return np.block([[M.real, -M.imag], [M.imag, M.real]])


def real_embed(M):
    """real matrix acting identically on Re and Im parts"""
    M = np.asarray(M, dtype=np.float64)
    Z = np.zeros_like(M)
    return np.block([[M, Z], [Z, M]])


def is_complex_linear(R, tol=1e-12):
    """does the real 2m×2n matrix commute with multiplication by i?"""
    m2, n2 = R.shape
    m, n = m2 // 2, n2 // 2
    Jn = np.block([[np.zeros((n, n)), -np.eye(n)], [np.eye(n), np.zeros((n, n))]])
    Jm = np.block([[np.zeros((m, m)), -np.eye(m)], [np.eye(m), np.zeros((m, m))]])
    sc = max(np.max(np.abs(R)), 1e-300) if R.size else 1.0
    return bool(np.max(np.abs(R @ Jn - Jm @ R), initial=0.0) <= tol * sc)
