"""Child side of the cross-process pickle monitor of C08:
    python -m vf.xproc_pickle <spec.json>
spec = {pickle: path, tuples: [descriptor lists], routes: [...], keys: [...], assign: {...}, order: "load_first"|"build_first"}
Unpickles domain tuples / a multi-domain / fields written (and hashed) by another interpreter with a
different PYTHONHASHSEED, builds the same descriptions freshly and reports identity / equality / hash."""
import json
import pickle
import sys


def main():
    spec = json.load(open(sys.argv[1]))
    import nifty.cl as ift
    from vf import domains_ref as R
    out = dict(checks=[])

    def load():
        with open(spec["pickle"], "rb") as f:
            return pickle.load(f)

    def build():
        tups = [R.build_tuple(ds, r) for ds, r in zip(spec["tuples"], spec["routes"])]
        md = ift.MultiDomain.make({k: tups[spec["assign"][k]] for k in spec["keys"]})
        return tups, md

    if spec["order"] == "load_first":
        obj = load()
        tups, md = build()
    else:
        tups, md = build()
        obj = load()
    for j, (lt, ft) in enumerate(zip(obj["tups"], tups)):
        out["checks"].append(dict(what=f"DomainTuple[{j}]", same=lt is ft, eq=bool(lt == ft),
                                  hash_eq=hash(lt) == hash(ft),
                                  sub_eq=all(a == b and hash(a) == hash(b) for a, b in zip(lt, ft))))
    out["checks"].append(dict(what="MultiDomain", same=obj["md"] is md, eq=bool(obj["md"] == md),
                              hash_eq=hash(obj["md"]) == hash(md), sub_eq=True))
    # a loaded field must combine with a fresh field on the same description
    try:
        f = obj["field"]
        g = ift.full(tups[0], 1.)
        h = f + g
        out["field_add"] = "ok" if h.domain is tups[0] else "wrong-domain"
    except Exception as e:  # noqa
        out["field_add"] = f"{type(e).__name__}: {str(e)[:100]}"
    sys.stdout.write("\nVFRESULT " + json.dumps(out) + "\n")


if __name__ == "__main__":
    main()
