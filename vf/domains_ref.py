"""Independent reference geometry / transforms for the nifty.cl domain checks
(C06, C08, C09, C10).

Everything in here is computed from *descriptors* (plain python numbers) with
NumPy / scipy closed forms only -- no NIFTy code and no ducc code is used for a
reference value.  The generators additionally build the NIFTy object that
corresponds to a descriptor (that is the object under observation).

Descriptor forms (all JSON-able)
    dict(t="RG", shape=[..], dist=[..]|None, harmonic=bool)
    dict(t="LM", lmax=int, mmax=int|None)
    dict(t="GL", nlat=int, nlon=int|None)
    dict(t="HP", nside=int)
    dict(t="U",  shape=[..])
    dict(t="PS", partner=<RG harmonic | LM desc>, bb=None|[..])
    dict(t="DOF", partner=<desc>, dofdex=[..])
"""
import numpy as np


def _I():
    import nifty.cl as ift
    return ift


# ---------------------------------------------------------------------------
# comparison
# ---------------------------------------------------------------------------
def close(a, b, ref=0.0, rtol=1e-9):
    """norm-wise closeness; ``ref`` is the natural magnitude of the quantity (e.g.
    sum |x| for a sum that may cancel) so that rounding of a cancelling but
    well-posed computation is not mistaken for a deviation."""
    a = np.asarray(a)
    b = np.asarray(b)
    if a.shape != b.shape:
        return False
    if a.size == 0:
        return True
    fa, fb = np.isfinite(a), np.isfinite(b)
    if not (fa.all() and fb.all()):
        return bool(np.array_equal(a, b, equal_nan=True))
    sc = float(np.max(np.abs(a))) + float(np.max(np.abs(b))) + float(np.max(np.abs(ref), initial=0.))
    return bool(np.max(np.abs(a - b)) <= rtol * sc + 1e-300)


def dev(a, b):
    a = np.asarray(a)
    b = np.asarray(b)
    if a.shape != b.shape:
        return "shape %s vs %s" % (a.shape, b.shape)
    if a.size == 0:
        return 0.0
    with np.errstate(all="ignore"):
        return float(np.max(np.abs(a - b)))


def small(x, n=6):
    """short JSON-able excerpt of an array for witnesses"""
    x = np.asarray(x).reshape(-1)[:n]
    if np.iscomplexobj(x):
        return [[float(v.real), float(v.imag)] for v in x]
    return [float(v) for v in x]


# ---------------------------------------------------------------------------
# closed-form geometry
# ---------------------------------------------------------------------------
def rg_distances(desc):
    """distances of the RG space described by desc (documented defaults)"""
    shape = desc["shape"]
    d = desc.get("dist")
    if d is None:
        if desc["harmonic"]:
            return [1.0] * len(shape)
        return [1.0 / n for n in shape]
    if np.isscalar(d):
        return [float(d)] * len(shape)
    return [float(x) for x in d]


def rg_codomain_distances(desc):
    return [1.0 / (n * d) for n, d in zip(desc["shape"], rg_distances(desc))]


def rg_klengths(shape, dist):
    """|k| of every pixel of a harmonic grid: || min(i, n-i) * d ||"""
    k2 = np.zeros(tuple(shape))
    for ax, (n, d) in enumerate(zip(shape, dist)):
        i = np.arange(n)
        c = np.minimum(i, n - i) * float(d)
        sl = [None] * len(shape)
        sl[ax] = slice(None)
        k2 = k2 + (c * c)[tuple(sl)]
    return np.sqrt(k2)


def lm_layout(lmax, mmax=None):
    """(l, m, part) per index of an LMSpace; part 0 = real (or m=0), 1 = imaginary.
    documented layout: all l for m=0, then for m=1..mmax, for l=m..lmax: Re, Im."""
    if mmax is None:
        mmax = lmax
    L, M, P = [], [], []
    for l in range(lmax + 1):
        L.append(l), M.append(0), P.append(0)
    for m in range(1, mmax + 1):
        for l in range(m, lmax + 1):
            L += [l, l]
            M += [m, m]
            P += [0, 1]
    return np.array(L), np.array(M), np.array(P)


def gl_nodes(nlat):
    """colatitudes (north to south) and Gauss-Legendre weights (sum = 2)"""
    x, w = np.polynomial.legendre.leggauss(nlat)
    order = np.argsort(-x)
    return np.arccos(x[order]), w[order]


def gl_dvol(nlat, nlon):
    _, w = gl_nodes(nlat)
    return np.repeat(w * 2 * np.pi / nlon, nlon)


def gl_angles(nlat, nlon):
    th, _ = gl_nodes(nlat)
    theta = np.repeat(th, nlon)
    phi = np.tile(2 * np.pi * np.arange(nlon) / nlon, nlat)
    return theta, phi


def hp_angles(nside):
    """pixel centres of the HEALPix RING scheme (Gorski et al. 2005, eqs. 2-9)"""
    npix = 12 * nside * nside
    ncap = 2 * nside * (nside - 1)
    theta = np.zeros(npix)
    phi = np.zeros(npix)
    for p in range(npix):
        if p < ncap:
            ir = int((1 + int(np.floor(np.sqrt(1 + 2 * p) + 1e-9))) // 2)
            while 2 * ir * (ir - 1) > p:
                ir -= 1
            while 2 * (ir + 1) * ir <= p:
                ir += 1
            ip = p + 1 - 2 * ir * (ir - 1)
            z = 1.0 - ir * ir * 4.0 / npix
            ph = (ip - 0.5) * np.pi / (2 * ir)
        elif p < npix - ncap:
            q = p - ncap
            ir = q // (4 * nside) + nside
            ip = q % (4 * nside) + 1
            fodd = 1.0 if ((ir + nside) & 1) else 0.5
            z = (2 * nside - ir) * 2.0 / (3 * nside)
            ph = (ip - fodd) * np.pi / (2 * nside)
        else:
            q = npix - p            # 1 .. ncap, counted from the south pole
            ir = 1
            while 2 * ir * (ir + 1) < q:
                ir += 1
            ip = 4 * ir + 1 - (q - 2 * ir * (ir - 1))
            z = -1.0 + ir * ir * 4.0 / npix
            ph = (ip - 0.5) * np.pi / (2 * ir)
        theta[p] = np.arccos(z)
        phi[p] = ph
    return theta, phi


def sht_matrix(lmax, mmax, theta, phi):
    """documented synthesis matrix LM -> pixels: orthonormal Y_lm (Condon-Shortley),
    real coefficient layout [a_l0 ; sqrt2 Re a_lm, sqrt2 Im a_lm], divided by sqrt(4 pi)."""
    from scipy.special import sph_harm_y
    L, M, P = lm_layout(lmax, mmax)
    T = np.zeros((len(theta), len(L)))
    for j, (l, m, p) in enumerate(zip(L, M, P)):
        Y = sph_harm_y(int(l), int(m), theta, phi)
        if m == 0:
            T[:, j] = Y.real
        elif p == 0:
            T[:, j] = np.sqrt(2.) * Y.real
        else:
            T[:, j] = -np.sqrt(2.) * Y.imag
    return T / np.sqrt(4 * np.pi)


def dft_matrix(shape):
    """complex matrix of the unnormalised forward DFT  F[k,x] = exp(-2 pi i k.x/n)
    on C-ordered flattened arrays of the given shape (Kronecker product)."""
    F = np.ones((1, 1), dtype=complex)
    for n in shape:
        k = np.arange(n)
        F1 = np.exp(-2j * np.pi * np.outer(k, k) / n)
        F = np.kron(F, F1)
    return F


def embed_axes(M, shape_in, axes, shape_out_axes=None):
    """matrix acting with M on the (consecutive) ``axes`` of a C-ordered array of
    shape ``shape_in`` and as identity on all other axes"""
    axes = list(axes)
    pre = int(np.prod(shape_in[:axes[0]], dtype=np.int64))
    post = int(np.prod(shape_in[axes[-1] + 1:], dtype=np.int64))
    return np.kron(np.kron(np.eye(pre), M), np.eye(post))


# ---------------------------------------------------------------------------
# power-space reference
# ---------------------------------------------------------------------------
def unique_sorted(k, rtol=1e-12):
    """sorted distinct values of k (values closer than rtol*max are one value)"""
    u = np.unique(np.asarray(k).reshape(-1))
    tol = rtol * u[-1]
    keep = [u[0]]
    for v in u[1:]:
        if v - keep[-1] > tol:
            keep.append(v)
        else:
            keep[-1] = v
    return np.array(keep)


def ref_bins(k, bb):
    """bin index of every k for inner bin bounds bb (bin = number of bounds < k)"""
    k = np.asarray(k)
    bb = np.asarray(bb, dtype=np.float64)
    return (k[..., None] > bb).sum(axis=-1)


def bounds_margin(k, bb):
    """smallest |k - bound| relative to the k scale (ties make the bin ambiguous)"""
    k = np.asarray(k).reshape(-1)
    bb = np.asarray(bb, dtype=np.float64)
    if bb.size == 0:
        return np.inf
    sc = max(float(np.max(k)), float(np.max(bb)), 1e-300)
    return float(np.min(np.abs(k[:, None] - bb[None, :]))) / sc


# ---------------------------------------------------------------------------
# generators (descriptor + NIFTy object + independent reference data)
# ---------------------------------------------------------------------------
def _rdist(rng):
    return float(np.round(np.exp(rng.uniform(-1.5, 1.5)), 4))


def gen_rg_desc(rng, maxdim=2, maxn=5, minn=1, harmonic=None, maxsize=None):
    for _ in range(100):
        nd = int(rng.integers(1, maxdim + 1))
        shape = [int(x) for x in rng.integers(minn, maxn + 1, nd)]
        if maxsize is None or int(np.prod(shape)) <= maxsize:
            break
    else:
        shape = [minn]
    mode = int(rng.integers(0, 5))
    if mode == 0:
        dist = None
    elif mode == 1:
        dist = _rdist(rng)                         # scalar
    elif mode == 2:
        d0 = _rdist(rng)
        dist = [d0] * len(shape)                   # all equal
    elif mode == 3 and len(shape) > 1:
        d0 = _rdist(rng)                           # nearly equal / very unequal
        if rng.integers(0, 2):
            dist = [d0 * (1 + 1e-6 * j) for j in range(len(shape))]
        else:
            dist = [d0 * (37.0 ** j) for j in range(len(shape))]
    else:
        dist = [_rdist(rng) for _ in shape]
    harm = bool(rng.integers(0, 2)) if harmonic is None else bool(harmonic)
    return dict(t="RG", shape=shape, dist=dist, harmonic=harm)


def gen_lm_desc(rng, maxl=4):
    lmax = int(rng.integers(0, maxl + 1))
    mmax = int(rng.integers(0, lmax + 1)) if rng.integers(0, 2) else None
    return dict(t="LM", lmax=lmax, mmax=mmax)


def gen_harmonic_desc(rng, maxdim=2, maxn=5, maxl=4, maxsize=None, minn=1):
    if rng.integers(0, 4) == 0:
        for _ in range(20):
            d = gen_lm_desc(rng, maxl)
            if maxsize is None or desc_size(d) <= maxsize:
                return d
        return dict(t="LM", lmax=1, mmax=None)
    return gen_rg_desc(rng, maxdim, maxn, minn=minn, harmonic=True, maxsize=maxsize)


def klengths_of(desc):
    """independent k-length array of a harmonic descriptor"""
    if desc["t"] == "RG":
        assert desc["harmonic"]
        return rg_klengths(desc["shape"], rg_distances(desc))
    if desc["t"] == "LM":
        return lm_layout(desc["lmax"], desc["mmax"])[0].astype(np.float64)
    raise ValueError(desc)


def gen_binbounds(rng, hdesc, allow_none=True):
    """(kind, bb) -- bb None (natural) or list of inner bounds that gives no empty bin
    and no tie; kinds: natural, mid (random subset of mid points), jitter"""
    k = klengths_of(hdesc)
    u = unique_sorted(k)
    choices = ["natural"] if allow_none else []
    if len(u) >= 2:
        choices += ["mid", "mid", "jitter"]
    if not choices:
        return "natural", None
    kind = choices[int(rng.integers(0, len(choices)))]
    if kind == "natural":
        return kind, None
    mids = 0.5 * (u[:-1] + u[1:])
    nb = int(rng.integers(1, len(mids) + 1))
    sel = np.sort(rng.choice(len(mids), size=nb, replace=False))
    bb = mids[sel]
    if kind == "jitter":
        gaps = (u[1:] - u[:-1])[sel]
        bb = bb + rng.uniform(-0.4, 0.4, nb) * gaps
    return kind, [float(x) for x in bb]


def gen_space_desc(rng, kinds=("RG", "RG", "RG", "U", "HP", "GL", "LM", "PS", "DOF"),
                   maxdim=2, maxn=5, maxsize=40):
    k = kinds[int(rng.integers(0, len(kinds)))]
    if k == "RG":
        return gen_rg_desc(rng, maxdim, maxn, maxsize=maxsize)
    if k == "U":
        n = int(rng.integers(1, maxn + 1))
        shp = [n, int(rng.integers(1, 3))] if rng.integers(0, 3) == 0 else [n]
        return dict(t="U", shape=shp)
    if k == "HP":
        return dict(t="HP", nside=1)
    if k == "GL":
        nlat = int(rng.integers(1, 4))
        nlon = int(rng.integers(1, 5)) if rng.integers(0, 2) else None
        return dict(t="GL", nlat=nlat, nlon=nlon)
    if k == "LM":
        return gen_lm_desc(rng, 3)
    if k == "PS":
        h = gen_harmonic_desc(rng, maxdim, max(maxn, 3), 3, maxsize=maxsize, minn=2)
        _, bb = gen_binbounds(rng, h)
        return dict(t="PS", partner=h, bb=bb)
    if k == "DOF":
        # (DOFDistributor needs a partner with volume: not an UnstructuredDomain)
        part = gen_space_desc(rng, kinds=("RG", "RG", "GL", "LM"), maxdim=1, maxn=maxn)
        n = desc_size(part)
        ndof = int(rng.integers(1, n + 1))
        dofdex = rng.integers(0, ndof, n)
        dofdex[rng.permutation(n)[:ndof]] = np.arange(ndof)
        return dict(t="DOF", partner=part, dofdex=[int(x) for x in dofdex])
    raise ValueError(k)


def desc_shape(d):
    t = d["t"]
    if t in ("RG", "U"):
        return tuple(d["shape"])
    if t == "LM":
        return (len(lm_layout(d["lmax"], d["mmax"])[0]),)
    if t == "GL":
        nlon = d["nlon"] if d["nlon"] is not None else 2 * d["nlat"] - 1
        return (d["nlat"] * nlon,)
    if t == "HP":
        return (12 * d["nside"] ** 2,)
    if t == "PS":
        k = klengths_of(d["partner"])
        if d["bb"] is None:
            return (len(unique_sorted(k)),)
        return (len(d["bb"]) + 1,)
    if t == "DOF":
        return (max(d["dofdex"]) + 1,)
    raise ValueError(t)


def desc_size(d):
    return int(np.prod(desc_shape(d), dtype=np.int64))


def desc_dvol(d):
    """independent pixel volumes: float (uniform), ndarray (per pixel) or None
    (unstructured: no volume)"""
    t = d["t"]
    if t == "RG":
        return float(np.prod(rg_distances(d)))
    if t == "LM":
        return 1.0
    if t == "HP":
        return 4 * np.pi / (12 * d["nside"] ** 2)
    if t == "GL":
        nlon = d["nlon"] if d["nlon"] is not None else 2 * d["nlat"] - 1
        return gl_dvol(d["nlat"], nlon)
    if t == "U":
        return None
    if t == "PS":
        k = klengths_of(d["partner"])
        pv = desc_dvol(d["partner"])
        if d["bb"] is None:
            u = unique_sorted(k)
            bb = 0.5 * (u[:-1] + u[1:])
        else:
            bb = d["bb"]
        pidx = ref_bins(k, bb).reshape(-1)
        return np.bincount(pidx, minlength=len(bb) + 1) * pv
    if t == "DOF":
        pv = desc_dvol(d["partner"])
        dd = np.asarray(d["dofdex"])
        if pv is None:
            raise ValueError("DOF over unstructured partner has no volume")
        if np.isscalar(pv):
            return np.bincount(dd, minlength=dd.max() + 1) * pv
        return np.bincount(dd, weights=np.asarray(pv).reshape(-1), minlength=dd.max() + 1)
    raise ValueError(t)


def desc_dvol_array(d):
    """dvol broadcast to the space's shape (None for unstructured)"""
    v = desc_dvol(d)
    if v is None:
        return None
    return np.broadcast_to(np.asarray(v, dtype=np.float64), desc_shape(d)).copy()


def canon(d):
    """canonical (hashable) form of a descriptor: equal iff the descriptions are equal"""
    t = d["t"]
    if t == "RG":
        return ("RG", tuple(d["shape"]), tuple(rg_distances(d)), bool(d["harmonic"]))
    if t == "LM":
        return ("LM", d["lmax"], d["lmax"] if d["mmax"] is None else d["mmax"])
    if t == "GL":
        return ("GL", d["nlat"], d["nlon"] if d["nlon"] is not None else 2 * d["nlat"] - 1)
    if t == "HP":
        return ("HP", d["nside"])
    if t == "U":
        return ("U", tuple(d["shape"]))
    if t == "PS":
        return ("PS", canon(d["partner"]), None if d["bb"] is None else tuple(d["bb"]))
    if t == "DOF":
        return ("DOF", tuple(float(x) for x in desc_dvol(d)))
    raise ValueError(t)


def build(d, route=0):
    """NIFTy domain for a descriptor.  ``route`` selects an equivalent way of
    writing the same description (container types, scalar vs tuple, defaults)."""
    I = _I()
    t = d["t"]
    if t == "RG":
        shape, dist, harm = d["shape"], d.get("dist"), d["harmonic"]
        r = route % 4
        if r == 0:
            shp = tuple(shape)
            dst = None if dist is None else (dist if np.isscalar(dist) else tuple(dist))
        elif r == 1:
            shp = list(shape)
            dst = None if dist is None else (dist if np.isscalar(dist) else list(dist))
        elif r == 2:
            shp = np.array(shape, dtype=np.int64)
            dst = None if dist is None else (np.float64(dist) if np.isscalar(dist)
                                             else np.array(dist, dtype=np.float64))
        else:
            shp = shape[0] if len(shape) == 1 else tuple(np.int32(x) for x in shape)
            full = rg_distances(d)
            if dist is None:
                # documented defaults written out explicitly
                dst = tuple(full) if not harm else 1.0
            elif np.isscalar(dist):
                dst = tuple(full)
            elif len(set(full)) == 1:
                dst = full[0]            # all equal -> scalar
            else:
                dst = tuple(dist)
        return I.RGSpace(shp, distances=dst, harmonic=harm)
    if t == "LM":
        lmax, mmax = d["lmax"], d["mmax"]
        if route % 2 == 1:
            return I.LMSpace(np.int64(lmax), lmax if mmax is None else np.int64(mmax))
        return I.LMSpace(lmax, mmax)
    if t == "GL":
        nlat, nlon = d["nlat"], d["nlon"]
        if route % 2 == 1:
            return I.GLSpace(np.int64(nlat), 2 * nlat - 1 if nlon is None else nlon)
        return I.GLSpace(nlat, nlon)
    if t == "HP":
        return I.HPSpace(d["nside"] if route % 2 == 0 else np.int64(d["nside"]))
    if t == "U":
        shp = d["shape"]
        r = route % 3
        if r == 0:
            return I.UnstructuredDomain(tuple(shp))
        if r == 1:
            return I.UnstructuredDomain(shp[0] if len(shp) == 1 else list(shp))
        return I.UnstructuredDomain(np.array(shp))
    if t == "PS":
        h = build(d["partner"], route)
        bb = d["bb"]
        if bb is not None:
            r = route % 3
            bb = tuple(bb) if r == 0 else (list(bb) if r == 1 else np.array(bb))
        return I.PowerSpace(h, bb)
    if t == "DOF":
        p = build(d["partner"], route)
        dd = I.DOFDistributor(I.makeField(p, np.array(d["dofdex"], dtype=np.int64)
                                          .reshape(p.shape)))
        return dd.domain[0]
    raise ValueError(t)


def gen_tuple_desc(rng, nsp=(1, 2, 3), maxsize=60, **kw):
    for _ in range(200):
        n = int(nsp[int(rng.integers(0, len(nsp)))])
        ds = [gen_space_desc(rng, **kw) for _ in range(n)]
        sz = int(np.prod([desc_size(d) for d in ds], dtype=np.int64))
        if 0 < sz <= maxsize:
            return ds
    return [dict(t="RG", shape=[3], dist=None, harmonic=False)]


def build_tuple(ds, route=0):
    I = _I()
    doms = [build(d, route) for d in ds]
    r = route % 3
    if r == 1:
        return I.DomainTuple.make(list(doms))
    if r == 2 and len(doms) == 1:
        return I.DomainTuple.make(doms[0])
    return I.DomainTuple.make(tuple(doms))


def tuple_shape(ds):
    s = ()
    for d in ds:
        s = s + desc_shape(d)
    return s


def tuple_axes(ds):
    ax, i = [], 0
    for d in ds:
        n = len(desc_shape(d))
        ax.append(tuple(range(i, i + n)))
        i += n
    return ax


def volume_array(ds, spaces):
    """product of the pixel volumes of the sub-domains in ``spaces`` broadcast over
    the full shape (ones along all other axes); None if one of them is unstructured"""
    shape = tuple_shape(ds)
    axes = tuple_axes(ds)
    w = np.ones(shape)
    for s in spaces:
        v = desc_dvol_array(ds[s])
        if v is None:
            return None
        sh = [1] * len(shape)
        for a, n in zip(axes[s], v.shape):
            sh[a] = n
        w = w * v.reshape(sh)
    return w
