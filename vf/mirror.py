"""Expression programs with two interpreters (DESIGN §3.7).

A *program* is a JSON-able SSA list of nodes over a set of input keys:

    prog = dict(inputs={key: [DTdesc, cplx, positive]}, single=bool,
                nodes=[[opname, arg, ...], ...])      # children = indices of earlier nodes

A node referenced twice is *the same Python object* in the NIFTy build (shared
leaf / shared sub-tree); two nodes with equal definitions are structurally
equal but distinct objects.

Interpreter 1 (``build_nifty``) builds ``nifty.cl`` operators through the
public operator algebra.  Interpreter 2 (``Mirror``) is an independent
``jax.numpy`` evaluator written from the documented meaning of every node; it
shares no code with NIFTy.  ``jax.jacfwd`` of the mirror on the real
representation of the input is the Jacobian oracle.

Real representation: a key with real values contributes n coordinates, a key
with complex values 2n coordinates (Re block, then Im block).  Outputs are
always expanded to (Re, Im) for value/Jacobian comparison so that a spurious
imaginary part is visible.

The generator (``gen_program``) is *value guided*: the evaluation point is
drawn first and every new node is evaluated (by the mirror) while the program
grows, so point-wise functions are only applied inside their valid range and
away from their kinks, and magnitudes stay bounded (no tolerance tuning).
"""
import numpy as np

# ---------------------------------------------------------------------------
# domains
# ---------------------------------------------------------------------------
SP_A = ["RG", [2], [1.0], False]
SP_B = ["U", [3]]
DT_MENU = [
    [["RG", [4], [0.5], False]],
    [["RG", [3], [1.5], True]],
    [["U", [4]]],
    [SP_B],
    [SP_A],
    [["RG", [2, 3], [0.5, 2.0], False]],
    [SP_A, SP_B],
    [["U", [2]], ["RG", [2], [0.25], False]],
]
SCALAR = []


def dt_shape(ds):
    return tuple(int(n) for d in ds for n in d[1])


def dt_size(ds):
    return int(np.prod(dt_shape(ds), dtype=np.int64)) if ds else 1


def space_dvol(d):
    if d[0] == "RG":
        return float(np.prod(d[2]))
    return None


def mk_space(I, d):
    if d[0] == "RG":
        return I.RGSpace(tuple(d[1]), distances=tuple(d[2]), harmonic=bool(d[3]))
    if d[0] == "U":
        return I.UnstructuredDomain(tuple(d[1]))
    raise ValueError(d)


def mk_dt(I, ds):
    return I.DomainTuple.make(tuple(mk_space(I, d) for d in ds))


def carr(seed, shape, kind="n"):
    """deterministic constant array for a node (kind: n normal, p positive in [0.4,2.5],
    c complex, u in (0.1,0.9), i small non-negative ints, b 0/1)"""
    r = np.random.default_rng([int(seed), 77])
    if kind == "n":
        return np.round(r.standard_normal(shape), 3)
    if kind == "p":
        return np.round(np.exp(r.uniform(np.log(0.4), np.log(2.5), shape)), 3)
    if kind == "c":
        return np.round(r.standard_normal(shape), 3) + 1j*np.round(r.standard_normal(shape), 3)
    if kind == "cp":   # complex with modulus in [0.4, 2.5]
        return (np.round(np.exp(r.uniform(np.log(0.4), np.log(2.5), shape)), 3)
                * np.exp(1j*np.round(r.uniform(-3, 3, shape), 2)))
    if kind == "u":
        return np.round(r.uniform(0.1, 0.9, shape), 3)
    if kind == "i":
        return r.integers(0, 6, shape).astype(np.int64)
    if kind == "b":
        return r.integers(0, 2, shape).astype(np.int64)
    raise ValueError(kind)


# ---------------------------------------------------------------------------
# types:  ("DT", ds, cplx)  |  ("MD", {key: (ds, cplx)})
# ---------------------------------------------------------------------------
def t_dt(ds, cplx):
    return ("DT", ds, bool(cplx))


def is_dt(t):
    return t[0] == "DT"


REAL_ONLY = ("abs", "absolute", "sign", "clip", "softplus", "unitstep")
ALL_PTW = ("sqrt", "sin", "cos", "tan", "sinc", "exp", "expm1", "log", "log10", "log1p", "sinh",
           "cosh", "tanh", "sigmoid", "reciprocal", "abs", "absolute", "sign", "power", "clip",
           "softplus", "exponentiate", "arctan", "unitstep")
TOTAL_PTW = ("sin", "cos", "sinc", "exp", "expm1", "sinh", "cosh", "tanh", "sigmoid", "softplus",
             "arctan", "power2", "exponentiate")


# ---------------------------------------------------------------------------
# the mirror (jax.numpy); written from the documented meaning of each node
# ---------------------------------------------------------------------------
def _jnp():
    import jax.numpy as jnp
    return jnp


def m_ptw(f, v, args, jnp=None):
    jnp = jnp or _jnp()
    if f == "sqrt":
        return jnp.sqrt(v)
    if f == "sin":
        return jnp.sin(v)
    if f == "cos":
        return jnp.cos(v)
    if f == "tan":
        return jnp.sin(v)/jnp.cos(v)
    if f == "sinc":      # sin(pi x)/(pi x), 1 at 0
        # Taylor branch near 0: autodiff of sin(s)/s cancels catastrophically for tiny s != 0
        # (cos(s)/s - sin(s)/s^2), which once produced an O(1) oracle error at s ~ 1e-16
        s = jnp.pi*v
        small = jnp.abs(s) < 0.05
        s2 = jnp.where(small, s, 0.)**2
        ser = 1. - s2/6.*(1. - s2/20.*(1. - s2/42.*(1. - s2/72.)))
        sb = jnp.where(small, 1., s)
        return jnp.where(small, ser, jnp.sin(sb)/sb)
    if f == "exp":
        return jnp.exp(v)
    if f == "expm1":
        return jnp.expm1(v)
    if f == "log":
        return jnp.log(v)
    if f == "log10":
        return jnp.log(v)/np.log(10.)
    if f == "log1p":
        return jnp.log1p(v)
    if f == "sinh":
        return jnp.sinh(v)
    if f == "cosh":
        return jnp.cosh(v)
    if f == "tanh":
        return jnp.tanh(v)
    if f == "sigmoid":   # NIFTy's documented definition: (1+tanh x)/2
        return 0.5*(1. + jnp.tanh(v))
    if f == "reciprocal":
        return 1./v
    if f in ("abs", "absolute"):
        return jnp.abs(v)
    if f == "sign":
        return jnp.sign(v)
    if f == "power":
        e = args[0]
        if float(e) == int(e):
            return v**int(e)
        return jnp.exp(e*jnp.log(v))
    if f == "clip":
        return jnp.minimum(jnp.maximum(v, args[0]), args[1])
    if f == "softplus":
        return jnp.logaddexp(0., v)
    if f == "exponentiate":
        return jnp.exp(v*np.log(args[0]))
    if f == "arctan":
        return jnp.arctan(v)
    if f == "unitstep":
        return jnp.where(v >= 0, 1., 0.)
    raise ValueError(f)


JAX_FUNCS = {
    # name: (function on jnp arrays, total?)  -- the *user function* handed to JaxOperator
    "sinx": lambda jnp, x: jnp.sin(x)*x,
    "cumsum": lambda jnp, x: jnp.cumsum(x.reshape(-1)).reshape(x.shape)*0.5,
    "sqsum": lambda jnp, x: x*jnp.sum(x**2)*0.1,
    "tanhroll": lambda jnp, x: jnp.tanh(x)+0.5*jnp.roll(x.reshape(-1), 1).reshape(x.shape),
}
JAXMD_FUNCS = {
    # dict -> array on the domain of the first key (all keys share one domain)
    "prodsin": lambda jnp, vs: vs[0]*jnp.sin(sum(vs[1:], 0.*vs[0]) + 0.3),
    "sumexp": lambda jnp, vs: jnp.exp(0.3*sum(vs[1:], vs[0])) + vs[0]**2,
}


def lh_value(kind, v, seed, par, jnp=None):
    """negative log-likelihoods as documented (C11 owns their correctness as pdfs)"""
    jnp = jnp or _jnp()
    if kind == "gauss":
        d = lh_data(kind, seed, par, v.shape)
        r = v - d if d is not None else v
        ic = lh_icov(seed, par, v.shape)
        return 0.5*jnp.sum(jnp.real(jnp.conj(r)*(ic*r)))
    if kind == "poisson":
        d = carr(seed, v.shape, "i")
        return jnp.sum(v) - jnp.sum(d*jnp.log(v))
    if kind == "invgamma":
        beta = carr(seed, v.shape, "p")
        alpha = par["alpha"]
        return jnp.sum((alpha + 1.)*jnp.log(v)) + jnp.sum(beta/v)
    if kind == "studentt":
        th = par["theta"]
        return jnp.sum((th + 1.)/2.*jnp.log1p(v**2/th))
    if kind == "bernoulli":
        d = carr(seed, v.shape, "b")
        return -jnp.sum(d*jnp.log(v)) - jnp.sum((1 - d)*jnp.log(1. - v))
    if kind == "categorical":
        d = cat_data(seed, v.shape)
        return -jnp.sum(d*jnp.log(v))
    raise ValueError(kind)


def cat_data(seed, shape):
    r = np.random.default_rng([int(seed), 78])
    d = np.zeros(shape, dtype=np.int64)
    n0 = shape[0]
    rest = shape[1:]
    idx = r.integers(0, n0, rest)
    for j in np.ndindex(*rest):
        d[(int(idx[j]),) + j] = 1
    if not rest:
        d[int(idx)] = 1
    return d


def lh_data(kind, seed, par, shape):
    if par.get("nodata"):
        return None
    return carr(seed, shape, "c" if par.get("cplx") else "n")


def lh_icov(seed, par, shape):
    ic = par.get("icov")
    if ic == "diag":
        return carr(seed + 1, shape, "p")
    if ic == "scal":
        return float(par["icov_c"])
    if ic == "invdiag":          # icov = makeOp(var).inverse  (N.inverse)
        return 1./carr(seed + 1, shape, "p")
    return 1.


def lh_metric_diag(kind, v, seed, par):
    """Fisher metric (diagonal) of the likelihood at value v, closed forms"""
    v = np.asarray(v)
    if kind == "gauss":
        ic = lh_icov(seed, par, v.shape)
        return np.broadcast_to(np.asarray(ic, dtype=float), v.shape)
    if kind == "poisson":
        return 1./v
    if kind == "invgamma":
        return (par["alpha"] + 1.)/v**2
    if kind == "studentt":
        th = par["theta"]
        return np.full(v.shape, (th + 1.)/(th + 3.))
    if kind == "bernoulli":
        return 1./(v*(1. - v))
    if kind == "categorical":
        return 1./v
    raise ValueError(kind)


class Mirror:
    """evaluates nodes of a program on an environment {key: jnp array}"""

    def __init__(self, prog, xp=None):
        self.prog = prog
        self.nodes = prog["nodes"]
        self.xp = xp          # numpy (generation) or jax.numpy (oracle); default jax.numpy
        self.tape = None      # list collecting every intermediate value (for rounding scales)

    @staticmethod
    def apply_obj(ob, v, jnp):
        k = ob[0]
        if k == "ptw":
            return m_ptw(ob[1], v, ob[2:], jnp)
        if k == "scale":
            return v*ob[1]
        if k == "mulc":
            return carr(ob[1], v.shape, "p")*v
        if k == "addc":
            c = carr(ob[1], v.shape, "n")
            return v - c if ob[2] else v + c
        if k == "matrix":
            return (carr(ob[1], (v.shape[0], v.shape[0]), "n")*0.5) @ v
        raise ValueError(k)

    # -- evaluation ---------------------------------------------------------
    def ev(self, i, env, cache=None):
        if cache is None:
            cache = {}
        if i in cache:
            return cache[i]
        r = self._ev(i, env, cache)
        cache[i] = r
        if self.tape is not None:
            self.tape += list(r.values()) if isinstance(r, dict) else [r]
        return r

    def _ev(self, i, env, cache):
        jnp = self.xp or _jnp()
        nd = self.nodes[i]
        op = nd[0]
        E = lambda j: self.ev(j, env, cache)
        if op == "var":
            return env[nd[1]]
        if op == "vars":
            return {k: env[k] for k in nd[1]}
        if op == "ptw":
            return m_ptw(nd[1], E(nd[2]), nd[3:], jnp)
        if op == "scale":
            return E(nd[1])*nd[2]
        if op == "addc":
            v = E(nd[1])
            c = carr(nd[2], v.shape, "c" if nd[4] else "n")
            return v - c if nd[3] else v + c
        if op == "addn":
            return E(nd[1]) + nd[2]
        if op == "subn":
            return E(nd[1]) - nd[2]
        if op == "rsubn":
            return nd[2] - E(nd[1])
        if op == "rdivn":
            return nd[2]/E(nd[1])
        if op == "divn":
            return E(nd[1])/nd[2]
        if op == "pown":
            return m_ptw("power", E(nd[1]), [nd[2]], jnp)
        if op == "rpown":
            return jnp.exp(E(nd[1])*np.log(nd[2]))
        if op == "neg":
            return -E(nd[1])
        if op == "absop":
            return jnp.abs(E(nd[1]))
        if op == "mulc":
            v = E(nd[1])
            return carr(nd[2], v.shape, "cp" if nd[3] else "p")*v
        if op == "invdiag":       # views of makeOp(d): inverse / adjoint / inverse.adjoint
            v = E(nd[1])
            d = carr(nd[2], v.shape, "cp" if nd[4] else "p")
            if nd[3] == "inv":
                return v/d
            if nd[3] == "adj":
                return np.conj(d)*v
            return v/np.conj(d)
        if op == "invscale":      # ScalingOperator(c).inverse
            return E(nd[1])/nd[2]
        if op == "app":           # a shared operator *object* applied to a child
            return self.apply_obj(self.prog["objs"][nd[1]], E(nd[2]), jnp)
        if op in ("sum", "integ"):
            v = E(nd[1])
            ds = nd[3]                     # DT desc of the child (kept in the node)
            spaces = nd[2]
            if spaces is None:
                spaces = list(range(len(ds)))
            axes, o, w = [], 0, 1.
            for si, d in enumerate(ds):
                na = len(d[1])
                if si in spaces:
                    axes += list(range(o, o + na))
                    if op == "integ":
                        w = w*space_dvol(d)
                o += na
            return jnp.sum(v, axis=tuple(axes))*w
        if op == "real":
            return jnp.real(E(nd[1]))
        if op == "imag":
            return jnp.imag(E(nd[1]))
        if op == "conj":
            return jnp.conj(E(nd[1]))
        if op == "matrix":
            v = E(nd[1])
            M = carr(nd[2], (v.shape[0], v.shape[0]), "n")*0.5
            return M @ v
        if op == "reshape":
            return E(nd[1]).reshape(dt_shape(nd[2]))
        if op == "leinsum":
            v = E(nd[1])
            if nd[2] == "i,ij->j":
                return jnp.einsum("i,ij->j", carr(nd[3], (v.shape[0],), "n"), v)
            if nd[2] == "j,ij->ij":
                return jnp.einsum("j,ij->ij", carr(nd[3], (v.shape[1],), "n"), v)
            raise ValueError(nd[2])
        if op == "jax1":
            return JAX_FUNCS[nd[2]](jnp, E(nd[1]))
        if op == "jaxmd":
            d = E(nd[1])
            return JAXMD_FUNCS[nd[2]](jnp, [d[k] for k in nd[3]])
        if op == "mleinsum":
            d = E(nd[1])
            return jnp.einsum("ij,j->i", d[nd[2][0]], d[nd[2][1]])
        if op == "add":
            return E(nd[1]) + E(nd[2])
        if op == "sub":
            return E(nd[1]) - E(nd[2])
        if op == "mul":
            return E(nd[1])*E(nd[2])
        if op == "div":
            return E(nd[1])/E(nd[2])
        if op == "pow":
            return jnp.exp(E(nd[2])*jnp.log(E(nd[1])))
        if op == "vdot":
            return jnp.sum(jnp.conj(E(nd[1]))*E(nd[2]))
        if op == "pack":          # items [key, child] or [key, child, negated]
            out = {}
            for it in nd[1]:
                k, v = it[0], E(it[1])
                if len(it) > 2 and it[2]:
                    v = -v
                out[k] = out[k] + v if k in out else v
            return out
        if op == "mdsub":
            a, b = E(nd[1]), E(nd[2])
            out = dict(a)
            for k, v in b.items():
                out[k] = out[k] - v if k in out else -v
            return out
        if op == "mdadd":
            a, b = E(nd[1]), E(nd[2])
            out = dict(a)
            for k, v in b.items():
                out[k] = out[k] + v if k in out else v
            return out
        if op == "mdmul":
            a, b = E(nd[1]), E(nd[2])
            return {k: a[k]*b[k] for k in a}
        if op == "mdptw":
            a = E(nd[2])
            return {k: m_ptw(nd[1], a[k], nd[3:], jnp) for k in a}
        if op == "get":
            return E(nd[1])[nd[2]]
        if op == "subst":
            inner = E(nd[3])
            env2 = dict(env)
            env2[nd[2]] = inner
            return self.ev(nd[1], env2, {})
        if op == "count":
            return E(nd[1])
        if op == "lh":
            kind, seed, par = nd[1], nd[3], nd[4]
            v = E(nd[2])
            if kind == "varcov":
                r, ic = v[par["kr"]], v[par["ki"]]
                if par.get("cplx"):
                    return 0.5*jnp.sum(jnp.real(jnp.conj(r)*r)*ic) - jnp.sum(jnp.log(ic))
                return 0.5*(jnp.sum(r*r*ic) - jnp.sum(jnp.log(ic)))
            if kind == "jaxlh":
                return 0.5*jnp.sum((v[par["keys"][0]]*jnp.exp(0.2*v[par["keys"][1]]) - 0.3)**2)
            return lh_value(kind, v, seed, par, jnp)
        if op == "lhscale":
            return E(nd[1])*nd[2]
        if op == "lhsum":
            return E(nd[1]) + E(nd[2])
        if op == "ham":
            lhv = E(nd[1])
            pr = 0.
            for k in nd[2]:                      # the keys of the likelihood's domain
                pr = pr + 0.5*jnp.sum(jnp.real(jnp.conj(env[k])*env[k]))
            return lhv + pr
        raise ValueError(op)


# ---------------------------------------------------------------------------
# real representation
# ---------------------------------------------------------------------------
class Layout:
    """ordered list of (key, shape, cplx); key None = plain Field"""

    def __init__(self, items):
        self.items = [(k, tuple(s), bool(c)) for k, s, c in items]

    @property
    def multi(self):
        return not (len(self.items) == 1 and self.items[0][0] is None)

    def size(self, expand=False):
        return sum(int(np.prod(s, dtype=np.int64))*(2 if (c or expand) else 1)
                   for _, s, c in self.items)

    def pack(self, vals, expand=False, xp=np):
        """vals: array or dict key->array  ->  real vector"""
        parts = []
        for k, s, c in self.items:
            v = vals if k is None else vals[k]
            v = xp.reshape(xp.asarray(v), (-1,))
            if c or expand:
                parts += [xp.real(v), xp.imag(v)]
            else:
                parts.append(xp.real(v))
        if not parts:
            return xp.zeros(0)
        return xp.concatenate(parts)

    def unpack(self, vec, xp=np):
        out, o = {}, 0
        for k, s, c in self.items:
            n = int(np.prod(s, dtype=np.int64))
            if c:
                v = vec[o:o + n] + 1j*vec[o + n:o + 2*n]
                o += 2*n
            else:
                v = vec[o:o + n]
                o += n
            out[k] = xp.reshape(v, s)
        if not self.multi:
            return out[None]
        return out

    def unpack_expanded(self, vec):
        """inverse of pack(expand=True): real-typed entries come back real"""
        out, o = {}, 0
        for k, s, c in self.items:
            n = int(np.prod(s, dtype=np.int64))
            re, im = vec[o:o + n], vec[o + n:o + 2*n]
            o += 2*n
            out[k] = np.reshape(re + 1j*im if c else re, s)
        if not self.multi:
            return out[None]
        return out

    def imag_parts_of_real(self, vals):
        """max |Im| over the real-typed entries (they are dropped by pack)"""
        m = 0.
        for k, s, c in self.items:
            if not c:
                v = np.asarray(vals if k is None else vals[k])
                if np.iscomplexobj(v) and v.size:
                    m = max(m, float(np.max(np.abs(v.imag))))
        return m

    def restrict_rows(self, M_expanded):
        """rows of a matrix in expanded layout -> rows in the natural layout"""
        idx, o = [], 0
        for k, s, c in self.items:
            n = int(np.prod(s, dtype=np.int64))
            idx += list(range(o, o + n))
            if c:
                idx += list(range(o + n, o + 2*n))
            o += 2*n
        return M_expanded[idx]


def field_to_np(I, f):
    """Field -> ndarray, MultiField -> dict"""
    if isinstance(f, I.MultiField):
        return {k: np.asarray(f[k].asnumpy()) for k in f.keys()}
    return np.asarray(f.asnumpy())


def np_to_field(I, dom, vals):
    if isinstance(dom, I.MultiDomain):
        return I.MultiField.from_dict(
            {k: I.makeField(dom[k], np.array(vals[k])) for k in dom.keys()}, dom)
    return I.makeField(dom, np.array(vals))


def layout_of_domain(I, dom, cplx):
    """cplx: bool or dict key->bool"""
    if isinstance(dom, I.MultiDomain):
        return Layout([(k, dom[k].shape, cplx[k] if isinstance(cplx, dict) else cplx)
                       for k in dom.keys()])
    return Layout([(None, dom.shape, cplx if not isinstance(cplx, dict) else cplx[None])])


def layout_of_value(I, f):
    if isinstance(f, I.MultiField):
        return Layout([(k, f[k].shape, np.iscomplexobj(f[k].asnumpy())) for k in sorted(f.keys())])
    return Layout([(None, f.shape, np.iscomplexobj(f.asnumpy()))])


class NiftyRaised(Exception):
    """an exception escaped from NIFTy code while the harness observed an operator"""

    def __init__(self, phase, exc):
        self.phase, self.exc = phase, exc
        self.key = nifty_exc_key(exc)
        super().__init__(f"{phase}: {type(exc).__name__}: {str(exc)[:200]}")


class ProbeDomainError(Exception):
    """a linear map observed by the harness returned a field on an unexpected domain"""

    def __init__(self, what):
        self.what = what
        super().__init__(what)


class Probe:
    __slots__ = ("v0", "lin", "tlay", "vec0", "veclin", "J", "A", "M", "imagA", "imagM")


def probe_operator(I, F, xf, wm, lay_in, adjoint=True, metric=True):
    """observe F(x), F(Linearization) -> val, dense jac (expanded target layout), dense
    jac.adjoint (natural layouts), dense metric"""
    p = Probe()
    dom = F.domain

    def guard(phase, fn):
        try:
            return fn()
        except Exception as e:        # noqa
            if nifty_exc_key(e) is None:
                raise
            raise NiftyRaised(phase, e)
    p.v0 = guard("apply", lambda: F(xf))
    p.lin = guard("apply-linearization", lambda: F(I.Linearization.make_var(xf, wm)))
    if p.lin.jac.domain is not F.domain or p.lin.jac.target is not F.target:
        raise ProbeDomainError("jac")
    if p.lin.val.domain is not F.target or p.v0.domain is not F.target:
        raise ProbeDomainError("val")
    if p.lin.metric is not None and (p.lin.metric.domain is not F.domain
                                     or p.lin.metric.target is not F.domain):
        raise ProbeDomainError("metric")
    p.tlay = layout_of_value(I, p.v0)
    p.vec0 = p.tlay.pack(field_to_np(I, p.v0), expand=True)
    p.veclin = p.tlay.pack(field_to_np(I, p.lin.val), expand=True)
    p.J = guard("jac", lambda: dense_linear(I, p.lin.jac, lay_in, dom, p.tlay, True))[0]
    p.A = p.M = None
    if adjoint:
        p.A, p.imagA = guard("jac.adjoint", lambda: dense_linear(
            I, p.lin.jac.adjoint, p.tlay, F.target, lay_in, False))
    if metric and p.lin.metric is not None:
        p.M, p.imagM = guard("metric", lambda: dense_linear(
            I, p.lin.metric, lay_in, dom, lay_in, False))
    return p


def dense_linear(I, fn, lay_in, dom_in, lay_out, expand_out):
    """real matrix of the real-linear map fn (Field->Field); real-typed *outputs*
    are projected on their real part unless expand_out"""
    n = lay_in.size()
    m = lay_out.size(expand=expand_out)
    M = np.zeros((m, n))
    worst_imag = 0.
    for j in range(n):
        e = np.zeros(n)
        e[j] = 1.
        y = field_to_np(I, fn(np_to_field(I, dom_in, lay_in.unpack(e))))
        if lay_out.multi != isinstance(y, dict) or (lay_out.multi and set(y) != {
                k for k, _, _ in lay_out.items}):
            raise ProbeDomainError("output of a linear map")
        if not expand_out:
            worst_imag = max(worst_imag, lay_out.imag_parts_of_real(y))
        M[:, j] = lay_out.pack(y, expand=expand_out)
    return M, worst_imag


# ---------------------------------------------------------------------------
# NIFTy builder
# ---------------------------------------------------------------------------
class _Vars:
    """marker for an identity on several input keys (consumers that are
    themselves operators on a MultiDomain take the keys directly)"""

    def __init__(self, I, mdom):
        self.mdom = mdom
        self._op = None
        self.I = I

    def materialise(self):
        if self._op is None:
            self._op = self.I.Operator.identity_operator(self.mdom)
        return self._op


def input_domain(I, prog):
    if prog.get("single"):
        (k, (ds, c, p)), = prog["inputs"].items()
        return mk_dt(I, ds)
    return I.MultiDomain.make({k: mk_dt(I, v[0]) for k, v in prog["inputs"].items()})


def build_nifty(I, prog, upto=None, vdoms=None):
    """list of nifty operators, one per node (shared nodes = shared objects)"""
    import jax.numpy as jnp
    nodes = prog["nodes"]
    ops = []
    keydom = {k: mk_dt(I, v[0]) for k, v in prog["inputs"].items()}
    for k, ds in (prog.get("virtual") or {}).items():
        keydom[k] = mk_dt(I, ds)

    def O(j):
        o = ops[j]
        return o.materialise() if isinstance(o, _Vars) else o

    objs = {}

    def OBJ(j, dom):
        """operator objects that are applied to several children (same Python object)"""
        if j not in objs:
            ob = prog["objs"][j]
            k = ob[0]
            if k == "ptw":
                objs[j] = I.ScalingOperator(dom, 1.).ptw(ob[1], *ob[2:])
            elif k == "scale":
                objs[j] = I.ScalingOperator(dom, ob[1])
            elif k == "mulc":
                objs[j] = I.makeOp(I.makeField(dom, carr(ob[1], dom.shape, "p")))
            elif k == "addc":
                objs[j] = I.Adder(I.makeField(dom, carr(ob[1], dom.shape, "n")), neg=bool(ob[2]))
            elif k == "matrix":
                n = dom.shape[0]
                objs[j] = I.MatrixProductOperator(dom, carr(ob[1], (n, n), "n")*0.5)
            else:
                raise ValueError(k)
        return objs[j]

    for i, nd in enumerate(nodes if upto is None else nodes[:upto + 1]):
        op = nd[0]
        if op == "var":
            if prog.get("single"):
                r = I.ScalingOperator(keydom[nd[1]], 1.)
            else:
                r = I.FieldAdapter(keydom[nd[1]], nd[1])
        elif op == "vars":
            r = _Vars(I, I.MultiDomain.make({k: keydom[k] for k in nd[1]}))
        elif op == "ptw":
            a = O(nd[2])
            args = list(nd[3:])
            if nd[1] in ("exp", "tanh", "log", "sqrt", "sin") and i % 2 == 0:
                r = getattr(a, nd[1])(*args)          # the generated convenience methods
            else:
                r = a.ptw(nd[1], *args)
        elif op == "scale":
            a = O(nd[1])
            r = a.scale(nd[2]) if i % 2 else nd[2]*a
        elif op == "addc":
            a = O(nd[1])
            c = I.makeField(a.target, carr(nd[2], a.target.shape, "c" if nd[4] else "n"))
            r = a - c if nd[3] else a + c
        elif op == "addn":
            r = O(nd[1]) + nd[2]
        elif op == "subn":
            r = O(nd[1]) - nd[2]
        elif op == "rsubn":
            r = nd[2] - O(nd[1])
        elif op == "rdivn":
            r = nd[2]/O(nd[1])
        elif op == "divn":
            r = O(nd[1])/nd[2]
        elif op == "pown":
            r = O(nd[1])**nd[2]
        elif op == "rpown":
            r = nd[2]**O(nd[1])
        elif op == "neg":
            r = -O(nd[1])
        elif op == "absop":
            r = abs(O(nd[1]))
        elif op == "mulc":
            a = O(nd[1])
            c = I.makeField(a.target, carr(nd[2], a.target.shape, "cp" if nd[3] else "p"))
            r = c*a if i % 2 else I.makeOp(c) @ a
        elif op == "invdiag":
            a = O(nd[1])
            D = I.makeOp(I.makeField(a.target, carr(nd[2], a.target.shape,
                                                    "cp" if nd[4] else "p")))
            V = {"inv": D.inverse, "adj": D.adjoint, "invadj": D.inverse.adjoint
                 if i % 2 else D.adjoint.inverse}[nd[3]]
            r = V @ a if i % 3 else V(a)
        elif op == "invscale":
            a = O(nd[1])
            r = I.ScalingOperator(a.target, nd[2]).inverse @ a
        elif op == "app":
            a = O(nd[2])
            ob = OBJ(nd[1], a.target)
            if ob.domain is not a.target:
                raise RuntimeError("harness: shared operator object applied on a foreign domain")
            r = ob @ a
        elif op == "sum":
            r = O(nd[1]).sum(nd[2] if nd[2] is None else tuple(nd[2]))
        elif op == "integ":
            r = O(nd[1]).integrate(nd[2] if nd[2] is None else tuple(nd[2]))
        elif op == "real":
            r = O(nd[1]).real
        elif op == "imag":
            r = O(nd[1]).imag
        elif op == "conj":
            r = O(nd[1]).conjugate()
        elif op == "matrix":
            a = O(nd[1])
            n = a.target.shape[0]
            r = I.MatrixProductOperator(a.target, carr(nd[2], (n, n), "n")*0.5) @ a
        elif op == "reshape":
            r = O(nd[1]).ducktape_left(mk_dt(I, nd[2]))
        elif op == "leinsum":
            a = O(nd[1])
            if nd[2] == "i,ij->j":
                mf = I.MultiField.from_dict({"m": I.makeField(
                    I.DomainTuple.make(a.target[0]), carr(nd[3], a.target[0].shape, "n"))})
            else:
                mf = I.MultiField.from_dict({"m": I.makeField(
                    I.DomainTuple.make(a.target[1]), carr(nd[3], a.target[1].shape, "n"))})
            r = I.LinearEinsum(a.target, mf, nd[2]) @ a
        elif op == "jax1":
            a = O(nd[1])
            f = JAX_FUNCS[nd[2]]
            r = I.JaxOperator(a.target, a.target, lambda x, f=f: f(jnp, x)) @ a
        elif op == "jaxmd":
            a = ops[nd[1]]
            f, keys = JAXMD_FUNCS[nd[2]], list(nd[3])
            mdom = a.mdom if isinstance(a, _Vars) else a.target
            jo = I.JaxOperator(mdom, mdom[keys[0]],
                               lambda x, f=f, keys=keys: f(jnp, [x[k] for k in keys]))
            r = jo if isinstance(a, _Vars) else jo @ a
        elif op == "mleinsum":
            a = ops[nd[1]]
            mdom = a.mdom if isinstance(a, _Vars) else a.target
            mo = I.MultiLinearEinsum(mdom, "ij,j->i", key_order=tuple(nd[2]))
            r = mo if isinstance(a, _Vars) else mo @ a
        elif op == "add":
            r = O(nd[1]) + O(nd[2])
        elif op == "sub":
            r = O(nd[1]) - O(nd[2])
        elif op == "mul":
            r = O(nd[1])*O(nd[2])
        elif op == "div":
            r = O(nd[1])/O(nd[2])
        elif op == "pow":
            r = O(nd[1])**O(nd[2])
        elif op == "vdot":
            r = O(nd[1]).vdot(O(nd[2]))
        elif op == "pack":
            r = None
            ts = [O(it[1]).ducktape_left(it[0]) for it in nd[1]]
            ngs = [bool(len(it) > 2 and it[2]) for it in nd[1]]
            if len(ts) > 1 and ngs[0] and all(isinstance(t, I.LinearOperator) for t in ts):
                # a signed sum whose *first* summand carries the minus flag (what `1 - A` turns into after
                # the scaling operator is moved to the end by SumOperator.simplify)
                from nifty.cl.operators.sum_operator import SumOperator
                r = SumOperator.make(ts, ngs)
            else:
                for t, ng in zip(ts, ngs):
                    if r is None:
                        r = -t if ng else t
                    else:
                        r = r - t if ng else r + t
        elif op == "mdsub":
            r = O(nd[1]) - O(nd[2])
        elif op == "mdadd":
            r = O(nd[1]) + O(nd[2])
        elif op == "mdmul":
            r = O(nd[1])*O(nd[2])
        elif op == "mdptw":
            r = O(nd[2]).ptw(nd[1], *nd[3:])
        elif op == "get":
            r = O(nd[1])[nd[2]]
        elif op == "subst":
            outer, inner = O(nd[1]), O(nd[3])
            ins = inner.ducktape_left(nd[2])
            # LinearOperator.__matmul__ is strict composition; Operator.__matmul__ inserts
            r = outer @ ins if (i % 2 and not isinstance(outer, I.LinearOperator)) \
                else outer.partial_insert(ins)
        elif op == "count":
            a = O(nd[1])
            r = a @ I.CountingOperator(a.domain)
        elif op == "lh":
            r = _build_lh(I, nd, ops, O)
        elif op == "lhscale":
            r = nd[2]*O(nd[1])
        elif op == "lhsum":
            r = O(nd[1]) + O(nd[2])
        elif op == "ham":
            r = I.StandardHamiltonian(O(nd[1]))
        else:
            raise ValueError(op)
        ops.append(r)
    return ops


def _build_lh(I, nd, ops, O):
    import jax.numpy as jnp
    kind, seed, par = nd[1], nd[3], nd[4]
    a = ops[nd[2]]
    if kind in ("varcov", "jaxlh"):
        mdom = a.mdom if isinstance(a, _Vars) else a.target
        if kind == "varcov":
            dt = np.complex128 if par.get("cplx") else np.float64
            e = I.VariableCovarianceGaussianEnergy(mdom[par["kr"]], par["kr"], par["ki"], dt)
        else:
            k0, k1 = par["keys"]
            # Gaussian in the residual r = a*exp(0.2 b) - 0.3; r is the documented
            # `transformation` (metric = J_r^T J_r)
            fa, fb = I.FieldAdapter(mdom[k0], k0), I.FieldAdapter(mdom[k1], k1)
            trafo = fa*(fb.scale(0.2)).exp() - 0.3
            e = I.JaxLikelihoodEnergyOperator(
                mdom, lambda x: 0.5*jnp.sum((x[k0]*jnp.exp(0.2*x[k1]) - 0.3)**2),
                transformation=trafo, sampling_dtype=np.float64)
        return e if isinstance(a, _Vars) else e @ a
    a = O(nd[2])
    tgt = a.target
    shp = tgt.shape
    if kind == "gauss":
        d = lh_data(kind, seed, par, shp)
        d = None if d is None else I.makeField(tgt, d)
        ic = par.get("icov")
        sd = np.complex128 if par.get("cplx") else np.float64
        if ic == "diag":
            icov = I.makeOp(I.makeField(tgt, carr(seed + 1, shp, "p")), sampling_dtype=sd)
        elif ic == "scal":
            icov = I.ScalingOperator(tgt, float(par["icov_c"]), sampling_dtype=sd)
        elif ic == "invdiag":
            icov = I.makeOp(I.makeField(tgt, carr(seed + 1, shp, "p")), sampling_dtype=sd).inverse
        else:
            icov = None
        e = I.GaussianEnergy(data=d, inverse_covariance=icov, domain=tgt,
                             sampling_dtype=sd if d is None else None)
    elif kind == "poisson":
        e = I.PoissonianEnergy(I.makeField(tgt, carr(seed, shp, "i")))
    elif kind == "invgamma":
        e = I.InverseGammaEnergy(I.makeField(tgt, carr(seed, shp, "p")), par["alpha"])
    elif kind == "studentt":
        e = I.StudentTEnergy(tgt, par["theta"])
    elif kind == "bernoulli":
        e = I.BernoulliEnergy(I.makeField(tgt, carr(seed, shp, "b")))
    elif kind == "categorical":
        e = I.CategoricalEnergy(I.makeField(tgt, cat_data(seed, shp)))
    else:
        raise ValueError(kind)
    return e @ a


# ---------------------------------------------------------------------------
# generator
# ---------------------------------------------------------------------------
def _allvals(v):
    return list(v.values()) if isinstance(v, dict) else [v]


def _ok_value(v, lo=0., hi=1e3):
    for a in _allvals(v):
        a = np.asarray(a)
        if a.size and (not np.all(np.isfinite(a)) or np.max(np.abs(a)) > hi):
            return False
    return True


def ptw_valid(f, v, args=()):
    """is point-wise f defined, differentiable and tame at every entry of v (with margin)?"""
    v = np.asarray(v)
    c = np.iscomplexobj(v)
    m = 0.05
    if c and f in REAL_ONLY:
        return False
    av = np.abs(v)
    if v.size == 0:
        return False

    def offcut(z):     # away from the branch cut (negative real axis) and from 0
        if not c:
            return bool(np.all(z > m))
        return bool(np.all((np.abs(z) > m) & ~((z.real < m) & (np.abs(z.imag) < m))))
    if f in ("sqrt", "log", "log10"):
        return offcut(v)
    if f == "log1p":
        return offcut(1. + v)
    if f == "reciprocal":
        return bool(np.all(av > m))
    if f == "tan":
        return bool(np.all(np.abs(np.cos(v)) > 0.1) and np.all(np.abs(v.imag) < 3))
    if f in ("abs", "absolute", "sign", "unitstep"):
        return bool(np.all(av > m))
    if f == "clip":
        return bool(np.all(np.abs(v - args[0]) > m) and np.all(np.abs(v - args[1]) > m))
    if f == "power":
        e = args[0]
        if float(e) == int(e):
            return bool(e > 0 or np.all(av > 0.2))
        return offcut(v) and bool(np.all(av > 0.2) or e > 1)
    if f in ("exp", "expm1", "sinh", "cosh"):
        return bool(np.all(np.abs(v.real) <= 4.))
    if f == "exponentiate":
        return bool(np.all(np.abs(v.real) <= 5.))
    if f in ("sin", "cos", "sinc"):
        return bool(np.all(np.abs(v.imag) < 3)) if c else True
    if f == "arctan":
        if c:
            return bool(np.all(np.abs(v - 1j) > 0.3) and np.all(np.abs(v + 1j) > 0.3)
                        and np.all(np.abs(v.real) > m))
        return True
    if f in ("tanh", "sigmoid"):
        if c:
            return bool(np.all(np.abs(np.cosh(v)) > 0.2))
        return True
    if f == "softplus":
        return bool(np.all(av < 30))
    return True


# node kinds that build nifty LinearOperators when all their children are linear
LINEAR_KINDS = ("var", "scale", "neg", "mulc", "invdiag", "invscale", "matrix", "reshape",
                "leinsum", "sum", "integ", "conj", "real", "divn", "add", "sub", "get", "pack",
                "mdadd", "mdsub")


class Gen:
    """random SSA program; value guided unless cfg['total']"""

    def __init__(self, rng, md=True, nkeys=(2, 3), cplx=False, steps=(3, 8), total=False,
                 maxdepth=6, energy=0.0, same_dt=False, p_subst=0.08, p_share=0.3,
                 p_clone=0.0, leafops=False, jax=True, mdweight=1,
                 linstart=0.0, minbin=0, force_varcov=False):
        self.rng = rng
        self.md, self.cplx, self.total = md, cplx, total
        self.maxdepth, self.energy = maxdepth, energy
        self.pr_subst, self.pr_share = p_subst, p_share
        self.leafops, self.jax, self.mdweight = leafops, jax, int(mdweight)
        self.linstart, self.minbin = linstart, minbin
        self.force_varcov = bool(force_varcov and md and not total)
        self.nodes, self.info = [], []
        self.objs, self.objdom = [], []
        self.inputs, self.virtual, self.env = {}, {}, {}
        self.banned = set()
        self.open_subst = None
        nk = int(rng.integers(nkeys[0], nkeys[1] + 1)) if md else 1
        main = DT_MENU[int(rng.integers(0, len(DT_MENU)))]
        for j in range(nk):
            key = "k%d" % j if md else "_"
            ds = main if (same_dt or rng.integers(0, 3) > 0) \
                else DT_MENU[int(rng.integers(0, len(DT_MENU)))]
            c = bool(cplx and rng.integers(0, 4) > 0)
            pos = bool((not c) and (not total) and rng.integers(0, 4) == 0)
            if self.force_varcov and j == 1:      # a positive key on the domain of key 0
                ds, c, pos = self.inputs["k0"][0], False, True
            self.inputs[key] = [ds, c, pos]
            self.env[key] = self.draw_point(ds, c, pos, rng)
        self.nsteps = int(rng.integers(steps[0], steps[1] + 1))
        self.mirror = Mirror(dict(nodes=self.nodes), xp=np)
        self.cache = {}

    # -- points -----------------------------------------------------------
    def draw_point(self, ds, c, pos, rng):
        shp = dt_shape(ds)
        if pos:
            return np.exp(rng.uniform(np.log(0.3), np.log(2.5), shp))
        a = np.clip(rng.standard_normal(shp), -3.5, 3.5)
        if c:
            a = a + 1j*np.clip(rng.standard_normal(shp), -3.5, 3.5)
        return a

    def draw_env(self, rng):
        return {k: self.draw_point(v[0], v[1], v[2], rng) for k, v in self.inputs.items()}

    # -- node bookkeeping -------------------------------------------------------
    def add(self, nd, typ, children, nonlinear=False, binary=False, mag=None):
        """append a node if its value at the point is acceptable; returns index or None"""
        i = len(self.nodes)
        self.nodes.append(nd)
        free = frozenset().union(*[self.info[j]["free"] for j in children]) if children \
            else frozenset()
        if nd[0] == "var":
            free = frozenset([nd[1]])
        elif nd[0] == "vars":
            free = frozenset(nd[1])
        elif nd[0] == "subst":
            free = (self.info[nd[1]]["free"] - {nd[2]}) | self.info[nd[3]]["free"]
        depth = 1 + max([self.info[j]["depth"] for j in children], default=0)
        val = None
        ok = depth <= self.maxdepth or nd[0] in ("subst", "lh", "lhsum", "lhscale", "ham")
        if ok and not self.total:
            try:
                with np.errstate(all="ignore"):
                    v = self.mirror.ev(i, self.env, self.cache)
                val = {k: np.asarray(a) for k, a in v.items()} if isinstance(v, dict) \
                    else np.asarray(v)
                ok = _ok_value(val)
            except (FloatingPointError, ZeroDivisionError):
                ok = False
        if ok and self.total:
            ok = mag is not None and mag <= 1e5
        if not ok:
            self.nodes.pop()
            self.cache.pop(i, None)
            return None
        if not self.total and typ[0] == "DT":
            typ = ("DT", typ[1], bool(np.iscomplexobj(val)))
        elif not self.total and typ[0] == "MD":
            typ = ("MD", {k: (typ[1][k][0], bool(np.iscomplexobj(val[k]))) for k in typ[1]})
        for j in children:
            self.info[j]["used"] += 1
        self.info.append(dict(t=typ, free=free, depth=depth, val=val, used=0, mag=mag,
                              nl=int(nonlinear), bin=int(binary),
                              lin=nd[0] in LINEAR_KINDS and all(
                                  self.info[j].get("lin", False) for j in children)))
        return i

    def pool(self, pred=lambda inf: True):
        out = []
        for i, inf in enumerate(self.info):
            if i in self.banned or (inf["free"] & self.banned_keys()):
                continue
            if self.nodes[i][0] in ("lh", "lhsum", "lhscale", "ham", "vars"):
                continue
            if pred(inf):
                out.append(i)
        return out

    def banned_keys(self):
        return self._bk if hasattr(self, "_bk") else frozenset()

    def choose(self, cands):
        """prefer unused and recent nodes (or deliberately re-use a used one: sharing)"""
        if not cands:
            return None
        rng = self.rng
        if rng.random() < self.pr_share:
            used = [i for i in cands if self.info[i]["used"] > 0]
            if used:
                return used[int(rng.integers(0, len(used)))]
        w = np.array([(3.0 if self.info[i]["used"] == 0 else 1.0)*(1.0 + i) for i in cands])
        return cands[int(rng.choice(len(cands), p=w/w.sum()))]

    # -- leaves -------------------------------------------------------------------
    def leaf(self, key):
        ds, c, _ = self.inputs[key] if key in self.inputs else (self.virtual[key][0],
                                                                  self.virtual[key][1], 0)
        return self.add(["var", key], t_dt(ds, c), [], mag=4.)

    # -- productions ------------------------------------------------------------------
    def step(self):
        rng = self.rng
        kinds = ["ptw"]*5 + ["affine"]*3 + ["binary"]*5 + ["reduce", "struct", "leaf", "cplxop",
                                                           "subst", "wchain"] \
            + ["pack", "mdop"]*self.mdweight + (["app"]*6 if self.total else []) \
            + (["linpack"]*self.mdweight if self.md and not self.total else [])
        for _ in range(20):
            k = kinds[int(rng.integers(0, len(kinds)))]
            r = getattr(self, "p_" + k)()
            if r is not None:
                return r
        return None

    def p_leaf(self):
        keys = list(self.inputs)
        return self.leaf(keys[int(self.rng.integers(0, len(keys)))])

    def dtnodes(self, pred=lambda inf: True):
        return self.pool(lambda inf: inf["t"][0] == "DT" and pred(inf))

    def p_ptw(self):
        rng = self.rng
        a = self.choose(self.dtnodes())
        if a is None:
            return None
        inf = self.info[a]
        if self.total:
            f = TOTAL_PTW[int(rng.integers(0, len(TOTAL_PTW)))]
            m = inf["mag"]
            args = []
            if f in ("exp", "expm1", "sinh", "cosh"):
                if m > 6:
                    return None
                mag = float(np.exp(m))
            elif f == "exponentiate":
                args = [[2., 0.5, 1.5][int(rng.integers(0, 3))]]
                if m*abs(np.log(args[0])) > 6:
                    return None
                mag = float(np.exp(m*abs(np.log(args[0]))))
            elif f == "power2":
                f, args, mag = "power", [2], m*m
            elif f == "softplus":
                mag = m + 1.
            elif f == "arctan":
                mag = 1.6
            else:
                mag = 1.
            return self.add(["ptw", f, a] + args, inf["t"], [a], nonlinear=True, mag=mag)
        v = inf["val"]
        order = list(rng.permutation(len(ALL_PTW)))
        # restricted functions first (they are rarely applicable, so take the chance)
        pri = [j for j in order if ALL_PTW[j] in ("sqrt", "log", "log10", "log1p", "reciprocal",
                                                  "tan", "abs", "absolute", "sign", "clip",
                                                  "power", "unitstep")]
        if rng.integers(0, 2):
            order = pri + [j for j in order if j not in pri]
        for j in order[:8]:
            f = ALL_PTW[j]
            args = []
            if f == "power":
                args = [[2, 3, 0.5, -1, 1.5, -2, 2.0][int(rng.integers(0, 7))]]
            elif f == "clip":
                if np.iscomplexobj(v) or v.size < 1:
                    continue
                lo, hi = np.quantile(v, [0.3, 0.7]) if v.size > 1 else (v.min() - 1, v.max() + 1)
                args = [float(np.round(lo - 0.07, 2)), float(np.round(hi + 0.07, 2))]
                if args[0] >= args[1]:
                    continue
            elif f == "exponentiate":
                args = [[2., 0.5, 1.5][int(rng.integers(0, 3))]]
            if not ptw_valid(f, v, args):
                continue
            r = self.add(["ptw", f, a] + args, inf["t"], [a], nonlinear=True)
            if r is not None:
                return r
        return None

    def p_affine(self):
        rng = self.rng
        a = self.choose(self.dtnodes())
        if a is None:
            return None
        inf = self.info[a]
        m = inf["mag"] or 0.
        c = float(np.round(rng.uniform(0.3, 2.0)*(-1 if rng.integers(0, 3) == 0 else 1), 2))
        seed = int(rng.integers(0, 10**6))
        cplxconst = bool(self.cplx and inf["t"][2] and rng.integers(0, 2))
        opts = ["scale", "addc", "addn", "mulc", "neg", "subn", "rsubn", "divn", "invdiag",
                "invscale"]
        if not self.total:
            opts += ["rdivn", "pown", "rpown", "absop"]
        k = opts[int(rng.integers(0, len(opts)))]
        v = inf["val"]
        if k == "scale":
            return self.add(["scale", a, c], inf["t"], [a], mag=abs(c)*m)
        if k == "neg":
            return self.add(["neg", a], inf["t"], [a], mag=m)
        if k == "addc":
            return self.add(["addc", a, seed, int(rng.integers(0, 2)), cplxconst], inf["t"], [a],
                            mag=m + 4)
        if k in ("addn", "subn", "rsubn"):
            return self.add([k, a, c], inf["t"], [a], mag=m + 2)
        if k == "divn":
            return self.add([k, a, c], inf["t"], [a], mag=m/abs(c))
        if k == "mulc":
            return self.add(["mulc", a, seed, cplxconst], inf["t"], [a], mag=2.5*m)
        if k == "invdiag":
            var = ["inv", "inv", "adj", "invadj"][int(rng.integers(0, 4))]
            return self.add(["invdiag", a, seed, var, cplxconst], inf["t"], [a], mag=2.5*m)
        if k == "invscale":
            return self.add(["invscale", a, c], inf["t"], [a], mag=m/abs(c))
        if k == "rdivn":
            if not ptw_valid("reciprocal", v):
                return None
            return self.add([k, a, c], inf["t"], [a], nonlinear=True)
        if k == "pown":
            e = [2, 3, 0.5, -1][int(rng.integers(0, 4))]
            if not ptw_valid("power", v, [e]):
                return None
            return self.add([k, a, e], inf["t"], [a], nonlinear=True)
        if k == "rpown":
            if not ptw_valid("exponentiate", v, [abs(c) + 0.2]):
                return None
            return self.add([k, a, float(np.round(abs(c) + 0.2, 2))], inf["t"], [a],
                            nonlinear=True)
        if k == "absop":
            if not ptw_valid("abs", v):
                return None
            return self.add([k, a], inf["t"], [a], nonlinear=True)
        return None

    def p_binary(self):
        rng = self.rng
        a = self.choose(self.dtnodes())
        if a is None:
            return None
        ta = self.info[a]["t"]
        b = self.choose(self.dtnodes(lambda inf: inf["t"][1] == ta[1]))
        if b is None:
            return None
        ia, ib = self.info[a], self.info[b]
        opts = ["add", "sub", "mul", "mul", "add"]
        if not self.total:
            opts += ["div", "pow", "vdot"]
        k = opts[int(rng.integers(0, len(opts)))]
        ma, mb = ia["mag"] or 0., ib["mag"] or 0.
        if k in ("add", "sub"):
            return self.add([k, a, b], ta, [a, b], binary=True, mag=ma + mb)
        if k == "mul":
            return self.add([k, a, b], ta, [a, b], nonlinear=True, binary=True, mag=ma*mb)
        if k == "div":
            if not ptw_valid("reciprocal", ib["val"]):
                return None
            return self.add([k, a, b], ta, [a, b], nonlinear=True, binary=True)
        if k == "pow":
            if not ptw_valid("log", ia["val"]) or np.max(np.abs(ib["val"])) > 4 \
                    or np.max(np.abs(np.log(np.abs(ia["val"])))) > 2:
                return None
            return self.add([k, a, b], ta, [a, b], nonlinear=True, binary=True)
        if k == "vdot":
            return self.add([k, a, b], t_dt(SCALAR, ta[2]), [a, b], nonlinear=True, binary=True)
        return None

    def p_reduce(self):
        rng = self.rng
        if self.total:
            return None
        a = self.choose(self.dtnodes(lambda inf: len(inf["t"][1]) >= 1))
        if a is None:
            return None
        ds = self.info[a]["t"][1]
        spaces = None
        if len(ds) == 2 and rng.integers(0, 3) > 0:
            spaces = [int(rng.integers(0, 2))]
        contracted = range(len(ds)) if spaces is None else spaces
        integ = bool(rng.integers(0, 2)) and all(ds[s][0] == "RG" for s in contracted)
        rest = [d for s, d in enumerate(ds) if s not in contracted]
        return self.add(["integ" if integ else "sum", a, spaces, ds], t_dt(rest, 0), [a])

    def p_struct(self):
        rng = self.rng
        a = self.choose(self.dtnodes(lambda inf: len(inf["t"][1]) >= 1))
        if a is None:
            return None
        inf = self.info[a]
        ds = inf["t"][1]
        k = ["matrix", "reshape", "leinsum", "jax1"][int(rng.integers(0, 4))]
        seed = int(rng.integers(0, 10**6))
        m = inf["mag"] or 0.
        if k == "matrix" and len(ds) == 1 and len(ds[0][1]) == 1:
            return self.add(["matrix", a, seed], inf["t"], [a], mag=8*m)
        if k == "reshape":
            c = [d for d in DT_MENU if d != ds and dt_size(d) == dt_size(ds)]
            if not c:
                return None
            nd = c[int(rng.integers(0, len(c)))]
            return self.add(["reshape", a, nd], t_dt(nd, 0), [a], mag=m)
        if k == "leinsum" and len(ds) == 2 and not self.total:
            if rng.integers(0, 2):
                return self.add(["leinsum", a, "i,ij->j", seed], t_dt([ds[1]], 0), [a])
            return self.add(["leinsum", a, "j,ij->ij", seed], inf["t"], [a])
        if k == "jax1" and self.jax and not inf["t"][2] and not self.total \
                and rng.integers(0, 3) == 0:
            fn = list(JAX_FUNCS)[int(rng.integers(0, len(JAX_FUNCS)))]
            return self.add(["jax1", a, fn], inf["t"], [a], nonlinear=True)
        return None

    # -- shared operator objects (total mode) ---------------------------------------------
    @staticmethod
    def obj_mag(ob, m):
        """magnitude bound of obj applied to something bounded by m (None: not allowed)"""
        k = ob[0]
        if k == "ptw":
            f = ob[1]
            if f in ("exp", "expm1", "sinh", "cosh"):
                return float(np.exp(m)) if m <= 6 else None
            if f == "exponentiate":
                e = m*abs(np.log(ob[2]))
                return float(np.exp(e)) if e <= 6 else None
            if f == "power":
                return m*m
            if f == "softplus":
                return m + 1.
            if f == "arctan":
                return 1.6
            return 1.
        if k == "scale":
            return abs(ob[1])*m
        if k == "mulc":
            return 2.5*m
        if k == "addc":
            return m + 4.
        if k == "matrix":
            return 8.*m
        raise ValueError(k)

    def new_obj(self, ds, kinds=("ptw", "ptw", "ptw", "scale", "mulc", "addc", "matrix"),
                fns=None):
        rng = self.rng
        k = kinds[int(rng.integers(0, len(kinds)))]
        if k == "matrix" and not (len(ds) == 1 and len(ds[0][1]) == 1):
            k = "mulc"
        if k == "ptw":
            fns = fns or TOTAL_PTW
            f = fns[int(rng.integers(0, len(fns)))]
            if f == "power2":
                ob = ["ptw", "power", 2]
            elif f == "exponentiate":
                ob = ["ptw", f, [2., 0.5, 1.5][int(rng.integers(0, 3))]]
            else:
                ob = ["ptw", f]
        elif k == "scale":
            ob = ["scale", float(np.round(rng.uniform(0.3, 3.0)*(-1 if rng.integers(0, 4) == 0
                                                                  else 1), 2))]
        elif k == "addc":
            ob = ["addc", int(rng.integers(0, 10**6)), int(rng.integers(0, 2))]
        else:
            ob = [k, int(rng.integers(0, 10**6))]
        self.objs.append(ob)
        self.objdom.append(ds)        # an operator object lives on one domain
        return len(self.objs) - 1

    def app(self, j, a):
        inf = self.info[a]
        if inf["t"][1] != self.objdom[j]:
            return None               # the same object cannot act on another domain
        mag = self.obj_mag(self.objs[j], inf["mag"] or 0.)
        if mag is None:
            return None
        return self.add(["app", j, a], inf["t"], [a], nonlinear=self.objs[j][0] == "ptw",
                        mag=mag)

    def p_app(self):
        rng = self.rng
        a = self.choose(self.dtnodes())
        if a is None:
            return None
        ds = self.info[a]["t"][1]
        fit = [j for j in range(len(self.objs)) if self.objdom[j] == ds]
        if fit and rng.random() < 0.6:
            j = fit[int(rng.integers(0, len(fit)))]
        else:
            j = self.new_obj(ds)
        return self.app(j, a)

    def nondiag(self, a):
        """a non-diagonal linear operator on top of node a (or None)"""
        rng = self.rng
        inf = self.info[a]
        ds = inf["t"][1]
        seed = int(rng.integers(0, 10**6))
        m = inf["mag"] or 0.
        if len(ds) == 1 and len(ds[0][1]) == 1:
            return self.add(["matrix", a, seed], inf["t"], [a], mag=8*m)
        if len(ds) == 2 and not self.total and rng.integers(0, 2):
            return self.add(["leinsum", a, "j,ij->ij", seed], inf["t"], [a])
        c = [d for d in DT_MENU if d != ds and dt_size(d) == dt_size(ds)]
        if not c:
            return None
        nd = c[int(rng.integers(0, len(c)))]
        return self.add(["reshape", a, nd], t_dt(nd, 0), [a], mag=m)

    def p_wchain(self, a=None):
        """scalar * (inverse-flagged diagonal) @ (non-diagonal linear) @ nonlinearity: the
        Jacobian chain starts with a lazily inverted DiagonalOperator below a scalar factor"""
        rng = self.rng
        if self.total:
            return None
        if a is None:
            a = self.choose(self.dtnodes(lambda inf: len(inf["t"][1]) >= 1))
        if a is None:
            return None
        n1 = self.p_ptw_on(a) if rng.integers(0, 4) else a
        if n1 is None:
            return None
        n2 = self.nondiag(n1)
        if n2 is None:
            return None
        inf = self.info[n2]
        seed = int(rng.integers(0, 10**6))
        var = ["inv", "inv", "invadj"][int(rng.integers(0, 3))]
        if rng.integers(0, 4) == 0:
            n3 = self.add(["invscale", n2, float(np.round(rng.uniform(0.4, 2.5), 2))], inf["t"],
                          [n2])
        else:
            n3 = self.add(["invdiag", n2, seed, var, bool(self.cplx and inf["t"][2]
                                                           and rng.integers(0, 2))],
                          inf["t"], [n2])
        if n3 is None:
            return None
        c = float(np.round(rng.uniform(0.3, 3.0)*(-1 if rng.integers(0, 3) == 0 else 1), 2))
        if abs(abs(c) - 1.) < 0.05:
            c = 2.5
        k = ["scale", "scale", "divn"][int(rng.integers(0, 3))]
        return self.add([k, n3, c], inf["t"], [n3])

    def lindiff(self):
        """(S - D)(x) (+/-) nonlinearity(x): differences of scaling/diagonal operators on an
        input combined with point-wise functions of the same input (their Jacobians are
        flattened into one sum of diagonal operators with mixed signs)"""
        rng = self.rng
        lv = [i for i, nd in enumerate(self.nodes) if nd[0] == "var" and nd[1] in self.inputs
              and not self.inputs[nd[1]][1]]
        if not lv:
            return None
        x = lv[int(rng.integers(0, len(lv)))]
        t = self.info[x]["t"]
        sd = lambda: int(rng.integers(0, 10**6))
        c = float(np.round(rng.uniform(0.3, 2.5), 2))
        ds = t[1]
        S = None
        if rng.integers(0, 5) < 3:          # non-diagonal S: (S - D) survives as a SumOperator
            if len(ds) == 1 and len(ds[0][1]) == 1:
                S = self.add(["matrix", x, sd()], t, [x], mag=32.)
            elif len(ds) == 2:
                S = self.add(["leinsum", x, "j,ij->ij", sd()], t, [x])
        if S is None:
            u = int(rng.integers(0, 3))
            S = x if u == 0 else (self.add(["scale", x, c], t, [x]) if u == 1
                                  else self.add(["mulc", x, sd(), False], t, [x]))
        D = self.add(["mulc", x, sd(), False], t, [x])
        if S is None or D is None:
            return None

        def nonlin():
            if rng.integers(0, 4) == 0:
                return self.add(["mul", x, x], t, [x, x], nonlinear=True, binary=True)
            return self.p_ptw_on(x)
        N = nonlin()
        if N is None:
            return None
        form = int(rng.integers(0, 6))
        B = lambda k, a, b: self.add([k, a, b], t, [a, b], binary=True)
        if form == 0:                              # (S - D) + N
            R = B("sub", S, D)
            r = R and B(["add", "sub"][int(rng.integers(0, 2))], R, N)
        elif form == 1:                            # N + (S - D)
            R = B("sub", S, D)
            r = R and B(["add", "sub"][int(rng.integers(0, 2))], N, R)
        elif form == 2:                            # S + N - D
            R = B("add", S, N)
            r = R and B("sub", R, D)
        elif form == 3:                            # D - S + N
            R = B("sub", D, S)
            r = R and B("add", R, N)
        elif form == 4:                            # S - N1 - N2
            R = B("sub", S, N)
            N2 = nonlin()
            r = R and N2 and B("sub", R, N2)
        else:                                      # (S - D) - N, then squared
            R = B("sub", S, D)
            r = R and B("sub", R, N)
            r = r and self.add(["mul", r, r], t, [r, r], nonlinear=True, binary=True)
        return r or None

    def p_cplxop(self):
        rng = self.rng
        if not self.cplx:
            return None
        a = self.choose(self.dtnodes())
        if a is None:
            return None
        k = ["real", "imag", "conj"][int(rng.integers(0, 3))]
        if k == "imag" and not (self.info[a]["t"][2] and np.any(self.info[a]["val"].imag != 0)):
            return None          # Imaginizer refuses real input by design (and an exactly
            #                      cancelled complex value comes back as real zeros)
        return self.add([k, a], self.info[a]["t"], [a])

    def p_pack(self):
        rng = self.rng
        if not self.md or self.total:
            return None
        a = self.choose(self.dtnodes())
        if a is None:
            return None
        ta = self.info[a]["t"]
        items = [["x", a]]
        same = self.dtnodes(lambda inf: inf["t"][1] == ta[1])
        b = self.choose(same)
        if b is not None and rng.integers(0, 3) > 0:
            items.append(["x", b])                  # same target key twice
        c = self.choose(self.dtnodes())
        if c is not None and rng.integers(0, 2):
            items.append(["y", c])
        if len(items) == 1:
            return None
        typ = {"x": (ta[1], 0)}
        if items[-1][0] == "y":
            typ["y"] = (self.info[c]["t"][1], 0)
        order = list(rng.permutation(len(items)))
        items = [items[j] for j in order]
        return self.add(["pack", items], ("MD", typ), [j for _, j in items], binary=True)

    def p_linpack(self):
        """difference of LinearOperators with a MultiDomain target (NIFTy SumOperator with
        negated summands): +-L1.ducktape_left(k1) +- L2.ducktape_left(k2) [+- L3...], summands on
        different / overlapping input keys and target keys; optionally two such sums subtracted"""
        rng = self.rng

        def linear_node():
            c = self.dtnodes(lambda inf: inf.get("lin") and len(inf["t"][1]) >= 1)
            a = self.choose(c)
            if a is None or rng.integers(0, 3) == 0:
                lv = [i for i, nd in enumerate(self.nodes) if nd[0] == "var"
                      and nd[1] in self.inputs and i not in self.banned]
                if not lv:
                    return a
                x = lv[int(rng.integers(0, len(lv)))]
                t = self.info[x]["t"]
                u = int(rng.integers(0, 4))
                sd = int(rng.integers(0, 10**6))
                if u == 0:
                    return x
                if u == 1:
                    return self.add(["scale", x, float(np.round(rng.uniform(0.4, 2.5), 2))], t,
                                    [x])
                if u == 2:
                    return self.add(["mulc", x, sd, False], t, [x])
                return self.nondiag(x) or x
            return a

        def one_pack():
            n = int(rng.integers(2, 4))
            items, typ = [], {}
            for _ in range(n):
                a = linear_node()
                if a is None:
                    return None
                ds = self.info[a]["t"][1]
                free = [k for k in ("x", "y", "z") if k not in typ or typ[k][0] == ds]
                pref = [k for k in free if k in typ] if rng.integers(0, 3) == 0 else \
                    [k for k in free if k not in typ]
                k = (pref or free)[int(rng.integers(0, len(pref or free)))]
                typ[k] = (ds, 0)
                items.append([k, a, int(rng.integers(0, 2))])
            if not any(it[2] for it in items[1:]):
                items[-1][2] = 1              # at least one negated later summand
            if len(typ) < 2:
                return None
            return self.add(["pack", items], ("MD", typ), [it[1] for it in items], binary=True)
        p = one_pack()
        if p is None:
            return None
        if rng.integers(0, 3) == 0:           # (sum) - (sum): nested negation flags
            q = one_pack()
            if q is not None:
                tp, tq = self.info[p]["t"][1], self.info[q]["t"][1]
                if all(k not in tp or tp[k][0] == v[0] for k, v in tq.items()):
                    typ = dict(tp)
                    typ.update(tq)
                    r = self.add(["mdsub", p, q], ("MD", typ), [p, q], binary=True)
                    p = r if r is not None else p
        u = int(rng.integers(0, 4))
        tp = self.info[p]["t"][1]
        if u == 0:                            # nonlinearity on top: the sum is the innermost op
            f = ["exp", "tanh", "sin", "sigmoid"][int(rng.integers(0, 4))]
            if all(ptw_valid(f, v) for v in _allvals(self.info[p]["val"])):
                return self.add(["mdptw", f, p], self.info[p]["t"], [p], nonlinear=True) or p
        if u == 1:                            # linear chain on top (ChainOperator)
            key = list(tp)[int(rng.integers(0, len(tp)))]
            return self.add(["get", p, key], t_dt(tp[key][0], 0), [p]) or p
        return p

    def mdnodes(self, pred=lambda inf: True):
        return self.pool(lambda inf: inf["t"][0] == "MD" and pred(inf))

    def p_mdop(self):
        rng = self.rng
        a = self.choose(self.mdnodes())
        if a is None:
            return None
        ta = self.info[a]["t"]
        k = ["get", "get", "mdadd", "mdsub", "mdmul", "mdmul", "mdptw"][int(rng.integers(0, 7))]
        if k == "get":
            key = list(ta[1])[int(rng.integers(0, len(ta[1])))]
            return self.add(["get", a, key], t_dt(ta[1][key][0], 0), [a])
        if k == "mdptw":
            f = ["exp", "tanh", "sin", "sigmoid"][int(rng.integers(0, 4))]
            if not all(ptw_valid(f, v) for v in _allvals(self.info[a]["val"])):
                return None
            return self.add(["mdptw", f, a], ta, [a], nonlinear=True)
        if k == "mdmul":
            b = self.choose(self.mdnodes(lambda inf: {q: w[0] for q, w in inf["t"][1].items()}
                                         == {q: w[0] for q, w in ta[1].items()}))
            if b is None:
                return None
            return self.add(["mdmul", a, b], ta, [a, b], nonlinear=True, binary=True)
        if k in ("mdadd", "mdsub"):
            def compat(inf):
                return all(q not in ta[1] or ta[1][q][0] == w[0] for q, w in inf["t"][1].items())
            b = self.choose(self.mdnodes(compat))
            if b is None:
                return None
            typ = dict(ta[1])
            typ.update(self.info[b]["t"][1])
            return self.add([k, a, b], ("MD", typ), [a, b], binary=True)
        return None

    def p_subst(self):
        rng = self.rng
        if not self.md or self.total or self.open_subst or rng.random() > self.pr_subst*6:
            return None
        a = self.choose(self.dtnodes())
        if a is None:
            return None
        inf = self.info[a]
        v = "v%d" % len(self.virtual)
        self.virtual[v] = [inf["t"][1], inf["t"][2]]
        self.env[v] = inf["val"]
        lf = self.leaf(v)
        self.open_subst = dict(key=v, inner=a, left=int(rng.integers(1, 4)), leaf=lf)
        # the next node must use the virtual key
        r = None
        for _ in range(10):
            r = self.p_ptw_on(lf) if rng.integers(0, 2) else self.p_bin_with(lf)
            if r is not None:
                break
        return r if r is not None else lf

    def p_ptw_on(self, a):
        save, self.choose = self.choose, lambda c: a if a in c else None
        try:
            return self.p_ptw()
        finally:
            self.choose = save

    def p_bin_with(self, a):
        calls = [0]
        save = self.choose

        def ch(c):
            calls[0] += 1
            if calls[0] == 1:
                return a if a in c else None
            return save(c)
        self.choose = ch
        try:
            return self.p_binary()
        finally:
            self.choose = save

    def close_subst(self):
        s = self.open_subst
        if s is None:
            return None
        self.open_subst = None
        v = s["key"]
        c = [i for i, inf in enumerate(self.info)
             if v in inf["free"] and inf["t"][0] == "DT" and i not in self.banned
             and self.nodes[i][0] != "var"]
        self._bk = self.banned_keys() | {v}
        if not c:
            return None
        outer = c[-1]
        return self.add(["subst", outer, v, s["inner"]], self.info[outer]["t"],
                        [outer, s["inner"]], binary=True)

    # -- energies ---------------------------------------------------------------------
    def positive(self, a, hi=None):
        """a node with values in (0.05, hi) derived from a (or a itself)"""
        v = self.info[a]["val"]
        if np.iscomplexobj(v):
            return None
        if np.all(v > 0.05) and (hi is None or np.all(v < hi)):
            return a
        if hi is not None:
            r = self.add(["ptw", "sigmoid", a], self.info[a]["t"], [a], nonlinear=True)
            if r is not None and np.all(self.info[r]["val"] > 0.05) \
                    and np.all(self.info[r]["val"] < hi):
                return r
            return None
        for f in ("exp", "softplus", "cosh"):
            if ptw_valid(f, v):
                r = self.add(["ptw", f, a], self.info[a]["t"], [a], nonlinear=True)
                if r is not None and np.all(self.info[r]["val"] > 0.05):
                    return r
        return None

    def make_lh(self, a=None):
        rng = self.rng
        if a is None:
            a = self.choose(self.dtnodes())
        if a is None:
            return None
        inf = self.info[a]
        seed = int(rng.integers(0, 10**6))
        c = bool(inf["t"][2])
        kinds = ["gauss", "gauss"] if c else ["gauss", "gauss", "poisson", "invgamma", "studentt",
                                              "bernoulli", "categorical"]
        kind = kinds[int(rng.integers(0, len(kinds)))]
        par = {}
        if kind == "gauss":
            if rng.integers(0, 3) == 0:      # scalar factor on top of the model
                a2 = self.add(["scale", a, float(np.round(rng.uniform(1.5, 3.0), 2))], inf["t"],
                              [a])
                a = a2 if a2 is not None else a
            par = dict(cplx=c, icov=[None, "diag", "scal", "invdiag"][int(rng.integers(0, 4))],
                       icov_c=float(np.round(rng.uniform(0.4, 2.5), 2)),
                       nodata=bool(rng.integers(0, 4) == 0))
        elif kind in ("poisson", "invgamma", "categorical"):
            if kind == "categorical" and len(inf["t"][1]) < 1:
                kind = "poisson"
            a = self.positive(a)
            if a is None:
                return None
            if kind == "invgamma":
                par = dict(alpha=float(np.round(rng.uniform(-0.5, 2.0), 2)))
        elif kind == "bernoulli":
            a = self.positive(a, hi=0.95)
            if a is None:
                return None
        elif kind == "studentt":
            par = dict(theta=float(np.round(rng.uniform(1.0, 5.0), 2)))
        return self.add(["lh", kind, a, seed, par], t_dt(SCALAR, 0), [a], nonlinear=True)

    def make_varcov(self):
        """VariableCovarianceGaussianEnergy on two packed nodes or directly on two input keys"""
        rng = self.rng
        if not self.md:
            return None
        # directly on input keys
        keys = list(self.inputs)
        pairs = [(r, i) for r in keys for i in keys if r != i and self.inputs[i][2]
                 and self.inputs[r][0] == self.inputs[i][0]]
        if pairs and (self.force_varcov or rng.integers(0, 2)):
            kr, ki = pairs[int(rng.integers(0, len(pairs)))]
            typ = ("MD", {kr: (self.inputs[kr][0], self.inputs[kr][1]),
                          ki: (self.inputs[ki][0], 0)})
            vs = self.add(["vars", [kr, ki]], typ, [])
            return self.add(["lh", "varcov", vs, 0, dict(kr=kr, ki=ki,
                                                          cplx=bool(self.inputs[kr][1]))],
                            t_dt(SCALAR, 0), [vs], nonlinear=True, binary=True)
        a = self.choose(self.dtnodes(lambda inf: len(inf["t"][1]) >= 1))
        if a is None:
            return None
        ta = self.info[a]["t"]
        b = self.choose(self.dtnodes(lambda inf: inf["t"][1] == ta[1] and not inf["t"][2]))
        if b is None:
            return None
        b = self.positive(b)
        if b is None:
            return None
        p = self.add(["pack", [["r", a], ["i", b]]], ("MD", {"r": (ta[1], 0), "i": (ta[1], 0)}),
                     [a, b], binary=True)
        if p is None:
            return None
        return self.add(["lh", "varcov", p, 0, dict(kr="r", ki="i", cplx=bool(ta[2]))],
                        t_dt(SCALAR, 0), [p], nonlinear=True, binary=True)

    def make_mdleaf(self):
        """operators that live directly on several input keys (JaxOperator, MultiLinearEinsum,
        JaxLikelihoodEnergyOperator): their own constant-input overrides are reachable"""
        rng = self.rng
        if not self.md or self.cplx:
            return None
        keys = list(self.inputs)
        k = ["jaxmd", "mleinsum", "jaxlh"][int(rng.integers(0, 3))]
        if k in ("jaxmd", "jaxlh"):
            if not self.jax:
                return None
            grp = [q for q in keys if self.inputs[q][0] == self.inputs[keys[0]][0]]
            if len(grp) < 2:
                return None
            grp = grp[:2] if k == "jaxlh" else grp[:3]
            typ = ("MD", {q: (self.inputs[q][0], 0) for q in grp})
            vs = self.add(["vars", grp], typ, [])
            if k == "jaxlh":
                return self.add(["lh", "jaxlh", vs, 0, dict(keys=grp[:2])], t_dt(SCALAR, 0), [vs],
                                nonlinear=True, binary=True)
            fn = list(JAXMD_FUNCS)[int(rng.integers(0, len(JAXMD_FUNCS)))]
            return self.add(["jaxmd", vs, fn, grp], t_dt(self.inputs[grp[0]][0], 0), [vs],
                            nonlinear=True, binary=True)
        two = [q for q in keys if len(self.inputs[q][0]) == 2
               and all(len(d[1]) == 1 for d in self.inputs[q][0])]
        for u in two:
            one = [q for q in keys if self.inputs[q][0] == [self.inputs[u][0][1]]]
            if one:
                w = one[0]
                typ = ("MD", {u: (self.inputs[u][0], 0), w: (self.inputs[w][0], 0)})
                vs = self.add(["vars", [u, w]], typ, [])
                return self.add(["mleinsum", vs, [u, w]], t_dt([self.inputs[u][0][0]], 0), [vs],
                                nonlinear=True, binary=True)
        return None

    # -- driver ------------------------------------------------------------------------
    def run(self):
        rng = self.rng
        for k in self.inputs:
            self.leaf(k)
        if self.leafops and rng.integers(0, 3) == 0:
            self.make_mdleaf()
        if self.linstart and rng.random() < self.linstart:
            self.linear_start()
        if not self.total and rng.random() < (0.15 if self.md else 0.6):
            self.lindiff()
        n = 0
        while n < self.nsteps:
            r = self.step()
            n += 1
            if self.open_subst:
                self.open_subst["left"] -= 1
                if self.open_subst["left"] <= 0:
                    self.close_subst()
        self.close_subst()
        root = self.join()
        if root is None:
            return None
        if self.energy and (self.force_varcov or rng.random() < self.energy):
            root = self.make_energy(root) or root
        return self.finish(root)

    def linear_start(self):
        """linear combinations directly on the leaves (-> NIFTy SumOperator / ChainOperator,
        with negated summands)"""
        rng = self.rng
        lv = [i for i, nd in enumerate(self.nodes) if nd[0] == "var" and nd[1] in self.inputs]
        for _ in range(int(rng.integers(1, 3))):
            a = lv[int(rng.integers(0, len(lv)))]
            same = [j for j in lv if self.info[j]["t"][1] == self.info[a]["t"][1] and j != a]
            if rng.integers(0, 3) == 0:
                c = float(np.round(rng.uniform(0.3, 2.0), 2))
                a = self.add(["mulc", a, int(rng.integers(0, 10**6)), False], self.info[a]["t"],
                             [a], mag=10.) if rng.integers(0, 2) else \
                    self.add(["scale", a, -c], self.info[a]["t"], [a], mag=8.)
                if a is None:
                    continue
            if not same:
                continue
            b = same[int(rng.integers(0, len(same)))]
            k = ["sub", "sub", "add"][int(rng.integers(0, 3))]
            r = self.add([k, a, b], self.info[a]["t"], [a, b], binary=True, mag=12.)
            if r is not None and rng.integers(0, 2):
                lv.append(r)

    def join(self):
        """combine not yet used nodes into one root"""
        rng = self.rng
        for _ in range(6):
            loose = [i for i in self.pool() if self.info[i]["used"] == 0
                     and self.nodes[i][0] != "var"]
            if len(loose) <= 1:
                break
            a, b = loose[-1], loose[-2]
            ta, tb = self.info[a]["t"], self.info[b]["t"]
            r = None
            if ta[0] == "DT" and tb[0] == "DT" and ta[1] == tb[1]:
                k = ["add", "mul", "sub"][int(rng.integers(0, 3))]
                r = self.add([k, a, b], ta, [a, b], nonlinear=(k == "mul"), binary=True,
                             mag=(self.info[a]["mag"] or 0)*(self.info[b]["mag"] or 0) + 1)
            elif ta[0] == "MD":
                key = list(ta[1])[0]
                r = self.add(["get", a, key], t_dt(ta[1][key][0], 0), [a])
            elif tb[0] == "MD":
                key = list(tb[1])[0]
                r = self.add(["get", b, key], t_dt(tb[1][key][0], 0), [b])
            elif not self.total:
                if ta[1] != SCALAR:
                    r = self.add(["sum", a, None, ta[1]], t_dt(SCALAR, 0), [a])
                elif tb[1] != SCALAR:
                    r = self.add(["sum", b, None, tb[1]], t_dt(SCALAR, 0), [b])
            if r is None:
                self.info[b]["used"] += 1      # give up on b
        c = [i for i in self.pool() if self.nodes[i][0] != "var"]
        if not c:
            return None
        loose = [i for i in c if self.info[i]["used"] == 0]
        return (loose or c)[-1]

    def make_energy(self, root):
        rng = self.rng
        t = self.info[root]["t"]
        r = None
        u = rng.integers(0, 10)
        if u < 2 or self.force_varcov:
            r = self.make_varcov()
        elif u < 3 and self.leafops:
            r = self.make_mdleaf()
            if r is not None and self.nodes[r][0] != "lh":
                r = self.make_lh(r)
        if r is None:
            if t[0] == "MD":
                key = list(t[1])[0]
                root = self.add(["get", root, key], t_dt(t[1][key][0], 0), [root])
            r = self.make_lh(root)
        if r is None:
            return None
        if rng.integers(0, 3) == 0:
            r2 = self.make_lh()
            if r2 is not None:
                r = self.add(["lhsum", r, r2], t_dt(SCALAR, 0), [r, r2], binary=True) or r
        if rng.integers(0, 4) == 0:
            r = self.add(["lhscale", r, float(np.round(rng.uniform(0.3, 3.0), 2))],
                         t_dt(SCALAR, 0), [r]) or r
        if rng.integers(0, 3) == 0:
            keys = sorted(self.info[r]["free"])
            if not any(k in self.virtual for k in keys):
                r = self.add(["ham", r, keys], t_dt(SCALAR, 0), [r]) or r
        return r

    def finish(self, root):
        """prune to the closure of the root, renumber, drop unused inputs"""
        keep, stack = set(), [root]
        while stack:
            i = stack.pop()
            if i in keep:
                continue
            keep.add(i)
            stack += self.children(self.nodes[i])
        order = sorted(keep)
        ren = {old: new for new, old in enumerate(order)}
        nodes = [self.rename(self.nodes[i], ren) for i in order]
        free = self.info[root]["free"]
        if any(k in self.virtual for k in free):
            return None
        inputs = {k: v for k, v in self.inputs.items() if k in free}
        if not inputs:
            return None
        usedvirt = {nd[2] for nd in nodes if nd[0] == "subst"}
        prog = dict(inputs=inputs, single=not self.md, nodes=nodes,
                    virtual={k: v[0] for k, v in self.virtual.items() if k in usedvirt})
        used = sorted({nd[1] for nd in nodes if nd[0] == "app"})
        if used:
            oren = {o: n for n, o in enumerate(used)}
            prog["objs"] = [self.objs[o] for o in used]
            for nd in nodes:
                if nd[0] == "app":
                    nd[1] = oren[nd[1]]
        if sum(self.info[i]["bin"] for i in order) < self.minbin:
            return None
        st = dict(n_nodes=len(nodes), nl=sum(self.info[i]["nl"] for i in order),
                  bin=sum(self.info[i]["bin"] for i in order),
                  depth=self.info[root]["depth"],
                  shared=sum(1 for i in order if self.nodes[i][0] != "var"
                             and sum(1 for j in order if i in self.children(self.nodes[j])) > 1),
                  keytwice=any(sum(1 for nd in nodes if nd[0] == "var" and nd[1] == k) > 1
                               or sum(1 for nd in nodes for ch in self.children(nd)
                                      if nodes[ch][0] == "var" and nodes[ch][1] == k) > 1
                               for k in inputs),
                  root=nodes[-1][0], mag=self.info[root]["mag"])
        x = {k: self.env[k] for k in inputs}
        return prog, x, st

    @staticmethod
    def children(nd):
        op = nd[0]
        if op in ("var", "vars"):
            return []
        if op in ("ptw", "mdptw", "app"):
            return [nd[2]]
        if op in ("add", "sub", "mul", "div", "pow", "vdot", "mdadd", "mdsub", "mdmul", "lhsum"):
            return [nd[1], nd[2]]
        if op == "pack":
            return [it[1] for it in nd[1]]
        if op == "subst":
            return [nd[1], nd[3]]
        if op == "lh":
            return [nd[2]]
        return [nd[1]]

    @staticmethod
    def rename(nd, ren):
        nd = list(nd)
        op = nd[0]
        if op in ("var", "vars"):
            return nd
        if op in ("ptw", "mdptw", "lh", "app"):
            nd[2] = ren[nd[2]]
        elif op in ("add", "sub", "mul", "div", "pow", "vdot", "mdadd", "mdsub", "mdmul", "lhsum"):
            nd[1], nd[2] = ren[nd[1]], ren[nd[2]]
        elif op == "pack":
            nd[1] = [[it[0], ren[it[1]]] + list(it[2:]) for it in nd[1]]
        elif op == "subst":
            nd[1], nd[3] = ren[nd[1]], ren[nd[3]]
        else:
            nd[1] = ren[nd[1]]
        return nd


TEMPLATE_FAMILIES = ("same-obj-two-keys", "nested-leaf-sharing", "leaf-chains-one-key",
                     "subtree-with-chains-on-top", "obj-on-two-subtrees", "two-groups")
_GENTLE = ("sin", "cos", "tanh", "sigmoid", "arctan", "sinc", "softplus")


def gen_template(rng, family=None):
    """trees of the families of shared-object layouts that optimise_operator is documented to
    handle (shared leaf chains, nested prefixes, one operator object above several keys or
    sub-trees).  -> (prog, None, stats, family) or None"""
    family = family or TEMPLATE_FAMILIES[int(rng.integers(0, len(TEMPLATE_FAMILIES)))]
    for _ in range(10):
        g = Gen(rng, md=True, nkeys=(2, 3), total=True, same_dt=True, maxdepth=12)
        lv = {k: g.leaf(k) for k in g.inputs}
        keys = list(lv)
        ds = g.inputs[keys[0]][0]
        x, y = lv[keys[0]], lv[keys[1]]
        inner = lambda: g.new_obj(ds, kinds=("ptw",), fns=_GENTLE + ("exp", "sinh", "expm1"))
        fn = lambda: g.new_obj(ds, kinds=("ptw",), fns=_GENTLE + ("power2",))
        lin = lambda: g.new_obj(ds, kinds=("scale", "scale", "mulc"))

        def B(a, b, ks=("mul", "add", "sub")):
            if a is None or b is None:
                return None
            k = ks[int(rng.integers(0, len(ks)))]
            ma, mb = g.info[a]["mag"], g.info[b]["mag"]
            return g.add([k, a, b], g.info[a]["t"], [a, b], nonlinear=(k == "mul"), binary=True,
                         mag=ma*mb if k == "mul" else ma + mb)

        def A(j, a):
            return None if a is None else g.app(j, a)
        r = None
        if family == "same-obj-two-keys":
            e = inner()
            parts = [A(lin(), A(e, lv[k])) for k in keys]
            r = parts[0]
            for p_ in parts[1:]:
                r = B(r, p_)
            if rng.integers(0, 2):
                r = B(r, B(A(fn(), x), A(fn(), y)))
        elif family == "nested-leaf-sharing":
            e, s_ = inner(), fn()
            r = B(A(lin(), A(s_, A(e, x))), A(lin(), A(s_, A(e, x))))
            if rng.integers(0, 2):                       # three levels
                q = fn()
                r = B(A(lin(), A(q, A(s_, A(e, x)))), A(lin(), A(q, A(s_, A(e, x)))))
                r = B(r, A(lin(), A(s_, A(e, x))), ("add", "sub"))
            r = B(r, A(fn(), A(e, x)), ("add", "sub", "mul"))
            if rng.integers(0, 2):
                r = B(r, A(fn(), y))
        elif family == "leaf-chains-one-key":
            e, s_ = inner(), fn()
            r = B(A(lin(), A(s_, A(e, x))), A(lin(), A(s_, A(e, x))))
            r = B(r, A(fn(), A(s_, A(e, x))))
        elif family == "subtree-with-chains-on-top":
            n = B(A(fn(), x), A(fn(), y), ("mul", "add"))
            e = fn()
            r = B(A(lin(), A(e, n)), A(lin(), A(e, n)))
            r = B(r, A(fn(), n))
        elif family == "obj-on-two-subtrees":
            s_, t_ = fn(), fn()
            n1 = B(A(s_, x), A(t_, y), ("mul",))
            n2 = B(A(s_, x), A(t_, y), ("add", "sub"))
            e = fn()
            r = B(A(lin(), A(e, n1)), A(lin(), A(e, n2)))
            r = B(r, B(n1, n2))
        elif family == "two-groups":
            s_, t_ = inner(), inner()
            r = B(B(A(lin(), A(s_, x)), A(lin(), A(s_, x))),
                  B(A(lin(), A(t_, y)), A(lin(), A(t_, y))), ("add", "sub", "mul"))
        if r is None:
            continue
        out = g.finish(r)
        if out is not None:
            return out[0], out[1], out[2], family
    return None


def gen_program(rng, **cfg):
    """-> (prog, x, stats) or None"""
    for _ in range(8):
        g = Gen(rng, **cfg)
        r = g.run()
        if r is not None:
            return r
    return None


# ---------------------------------------------------------------------------
# oracle helpers
# ---------------------------------------------------------------------------
def input_layout(prog):
    if prog.get("single"):
        (k, (ds, c, p)), = prog["inputs"].items()
        return Layout([(None, dt_shape(ds), c)])
    return Layout([(k, dt_shape(v[0]), v[1]) for k, v in sorted(prog["inputs"].items())])


def env_from(prog, lay, vec, xp=np):
    d = lay.unpack(vec, xp=xp)
    if prog.get("single"):
        (k, _), = prog["inputs"].items()
        return {k: d}
    return d


def x_to_vals(prog, x):
    """generator point -> what Layout.pack expects"""
    if prog.get("single"):
        (k, _), = prog["inputs"].items()
        return x[k]
    return x


class TracedMirror:
    """jax.jvp of the mirror of one node, traced once (the trace does not depend on the
    point); ``at(xvec)`` evaluates value and Jacobian at a point.

    The traced program (jax's derivative rules applied by jax) is evaluated per basis
    tangent by vf.jaxpr_np; unknown primitive -> fallback to jax.jit(jax.jacfwd).

    sval / sjac of the result: largest magnitude of any intermediate value / any entry of
    any intermediate Jacobian — the scale of the rounding error when terms cancel."""

    def __init__(self, prog, node, out_keys=None, stats=None):
        import jax
        import jax.numpy as jnp
        self.prog, self.node, self.stats = prog, node, stats
        lay = self.lay = input_layout(prog)
        mir = Mirror(prog, xp=jnp)
        box = {}

        def f(xv):
            mir.tape = []
            v = mir.ev(node, env_from(prog, lay, xv, xp=jnp), {})
            tape, mir.tape = mir.tape, None
            if isinstance(v, dict):
                keys = sorted(v) if out_keys is None else list(out_keys)
                olay = Layout([(k, np.shape(v[k]), jnp.iscomplexobj(v[k])) for k in keys])
            else:
                olay = Layout([(None, np.shape(v), jnp.iscomplexobj(v))])
            box["olay"] = olay
            aux = []
            for a in tape:
                a = jnp.reshape(jnp.asarray(a), (-1,))
                aux += [jnp.real(a), jnp.imag(a)] if jnp.iscomplexobj(a) else [a]
            return jnp.concatenate([olay.pack(v, expand=True, xp=jnp), xv] + aux)
        self.f = f
        self.n = lay.size()
        x0 = np.zeros(self.n) + 0.5
        self.jp = jax.make_jaxpr(lambda a, t: jax.jvp(f, (a,), (t,)))(x0, x0)
        self.olay = box["olay"]
        self.m = self.olay.size(expand=True)
        self.use_xla = False

    def at(self, xvec):
        from vf import jaxpr_np
        x0 = np.asarray(xvec, dtype=np.float64)
        n = self.n
        Jall = vec = None
        if not self.use_xla:
            try:
                with np.errstate(all="ignore"):
                    for j in range(n):
                        e = np.zeros(n)
                        e[j] = 1.
                        val, dval = jaxpr_np.eval_jaxpr(self.jp.jaxpr, self.jp.consts, x0, e)
                        dval = np.asarray(dval, dtype=np.float64).reshape(-1)
                        if Jall is None:
                            Jall = np.zeros((dval.size, n))
                        Jall[:, j] = dval
                        vec = np.asarray(val, dtype=np.float64).reshape(-1)
                if self.stats is not None:
                    self.stats["np"] = self.stats.get("np", 0) + 1
            except jaxpr_np.Unsupported as ex:
                self.use_xla = True
                if self.stats is not None:
                    self.stats["unsupported:" + str(ex)] = 1
        if self.use_xla:
            import jax
            import jax.numpy as jnp
            if not hasattr(self, "_jit"):
                self._jit = jax.jit(lambda a: (self.f(a), jax.jacfwd(self.f)(a)))
            vec, Jall = self._jit(jnp.asarray(x0))
            vec, Jall = np.asarray(vec), np.asarray(Jall).reshape(-1, n)
            if self.stats is not None:
                self.stats["xla"] = self.stats.get("xla", 0) + 1
        o = Oracle()
        o.olay = self.olay
        o.vec = vec[:self.m]
        o.J = Jall[:self.m]
        o.val = self.olay.unpack_expanded(o.vec)
        o.sval = float(np.max(np.abs(vec), initial=0.))
        o.sjac = float(np.max(np.abs(Jall), initial=0.))
        return o


class Oracle:
    """value, Jacobian and rounding scales of one node, from the mirror"""
    __slots__ = ("val", "vec", "J", "olay", "sval", "sjac")


def mirror_value_and_jac(prog, node, xvec, out_keys=None, stats=None):
    return TracedMirror(prog, node, out_keys, stats).at(xvec)


def expected_metric(prog, node, xvec):
    """(J^T M_lh J, rounding scale) for likelihood-type nodes (real repr. of the input)"""
    nd = prog["nodes"][node]
    op = nd[0]
    n = len(xvec)
    if op == "lh":
        kind, seed, par = nd[1], nd[3], nd[4]
        if kind != "jaxlh":
            o = mirror_value_and_jac(
                prog, nd[2], xvec, out_keys=[par["kr"], par["ki"]] if kind == "varcov" else None)
            val, J = o.val, o.J
        if kind == "varcov":
            ic = np.real(val[par["ki"]]).reshape(-1)
            fct = 1. if par.get("cplx") else 0.5
            d = np.concatenate([ic, ic, fct*ic**(-2), 0*ic])   # (Re r, Im r, Re i, Im i)
        elif kind == "jaxlh":
            o = mirror_value_and_jac(prog, nd[2], xvec, out_keys=par["keys"])
            a, b = (np.real(o.val[k]).reshape(-1) for k in par["keys"])
            na = a.size
            Ja, Jb = o.J[:na], o.J[2*na:3*na]
            Jr = np.exp(0.2*b)[:, None]*Ja + (0.2*a*np.exp(0.2*b))[:, None]*Jb
            return Jr.T @ Jr, float(np.max(np.abs(Jr), initial=0.)**2)
        else:
            m = lh_metric_diag(kind, np.real(val) if kind != "gauss" else val, seed, par)
            m = np.real(np.asarray(m, dtype=complex)).reshape(-1)
            d = np.concatenate([m, m])
        return J.T @ (d[:, None]*J), float(o.sjac**2*np.max(np.abs(d), initial=0.))
    if op == "lhscale":
        m = expected_metric(prog, nd[1], xvec)
        return None if m is None else (nd[2]*m[0], nd[2]*m[1])
    if op == "lhsum":
        a, b = expected_metric(prog, nd[1], xvec), expected_metric(prog, nd[2], xvec)
        return None if a is None or b is None else (a[0] + b[0], a[1] + b[1])
    if op == "ham":
        m = expected_metric(prog, nd[1], xvec)
        return None if m is None else (m[0] + np.eye(n), m[1] + 1.)
    return None


def first_wrong_domain(I, prog, ops):
    """kind of the first node whose nifty operator has not the keys its parts have"""
    free = []
    for i, nd in enumerate(prog["nodes"]):
        if nd[0] == "var":
            fr = {nd[1]}
        elif nd[0] == "vars":
            fr = set(nd[1])
        elif nd[0] == "subst":
            fr = (free[nd[1]] - {nd[2]}) | free[nd[3]]
        else:
            fr = set().union(*[free[j] for j in Gen.children(nd)])
        free.append(fr)
        op = ops[i]
        if nd[0] != "vars" and isinstance(op.domain, I.MultiDomain) \
                and set(op.domain.keys()) != fr:
            return ":".join(str(a) for a in nd[:2] if isinstance(a, str))
    return prog["nodes"][-1][0]


def is_energy_root(prog):
    return prog["nodes"][-1][0] in ("lh", "lhscale", "lhsum", "ham")


def norm_close(a, b, rtol=1e-9, scale=0., stol=1e-11):
    """max|a-b| <= rtol*(max|a|+max|b|) + stol*scale;  scale = magnitude of the largest
    intermediate quantity (rounding error of cancelling terms).  Returns (ok, relative dev)"""
    a, b = np.asarray(a, dtype=float), np.asarray(b, dtype=float)
    if a.shape != b.shape:
        return False, float("inf")
    if a.size == 0:
        return True, 0.
    if not (np.all(np.isfinite(a)) and np.all(np.isfinite(b))):
        return False, float("nan")
    sc = np.max(np.abs(a)) + np.max(np.abs(b))
    dev = float(np.max(np.abs(a - b)))
    return dev <= rtol*sc + stol*scale + 1e-300, (dev/sc if sc > 0 else 0.)


def nifty_exc_key(e):
    """mechanism key of an exception raised inside NIFTy: Type@Class.function[:mode]"""
    import traceback
    tb = e.__traceback__
    last = None
    while tb is not None:
        fn = tb.tb_frame.f_code.co_filename
        if "/nifty/" in fn and "/verif/" not in fn:
            last = tb.tb_frame
        tb = tb.tb_next
    if last is None:
        return None
    slf = last.f_locals.get("self")
    cls = type(slf).__name__ if slf is not None else last.f_code.co_filename.split("/")[-1]
    if slf is None:
        # a helper function raised: name the innermost *method* on the stack as well
        tb, meth = e.__traceback__, None
        while tb is not None:
            fr = tb.tb_frame
            if "/nifty/" in fr.f_code.co_filename and fr.f_locals.get("self") is not None:
                meth = f"{type(fr.f_locals['self']).__name__}.{fr.f_code.co_name}"
            tb = tb.tb_next
        if meth:
            return f"{type(e).__name__}@{meth}>{last.f_code.co_name}"
    key = f"{type(e).__name__}@{cls}.{last.f_code.co_name}"
    mode = last.f_locals.get("mode")
    if isinstance(mode, int):
        key += ":mode%d" % mode
    return key
