"""Seeded generators for nifty.cl domains / fields and small helpers.

All functions take a numpy Generator ``rng`` (from ck.rng()) — never NIFTy's RNG.
Each generated object comes with a JSON-able descriptor so a case can be
written out and rebuilt.
"""
import numpy as np


def ift():
    import nifty.cl as ift_
    return ift_


# ---------------------------------------------------------------- domains ---
def gen_rg(rng, maxdim=2, maxn=5, harmonic=None, minn=1):
    I = ift()
    nd = int(rng.integers(1, maxdim + 1))
    shape = tuple(int(x) for x in rng.integers(minn, maxn + 1, nd))
    kind = rng.integers(0, 3)
    if kind == 0:
        dist = None
    else:
        dist = tuple(float(np.round(np.exp(rng.uniform(-2, 2)), 3)) for _ in shape)
    harm = bool(rng.integers(0, 2)) if harmonic is None else harmonic
    dom = I.RGSpace(shape, distances=dist, harmonic=harm)
    return dom, dict(t="RG", shape=shape, dist=dist, harmonic=harm)


def gen_space(rng, kinds=("RG", "RG", "RG", "U", "HP", "GL", "LM", "PS", "DOF"),
              maxdim=2, maxn=5):
    """one sub-domain (a Domain) and its descriptor"""
    I = ift()
    k = kinds[int(rng.integers(0, len(kinds)))]
    if k == "RG":
        return gen_rg(rng, maxdim, maxn)
    if k == "U":
        n = int(rng.integers(1, maxn + 1))
        if rng.integers(0, 3) == 0:
            shp = (n, int(rng.integers(1, 3)))
        else:
            shp = (n,)
        return I.UnstructuredDomain(shp), dict(t="U", shape=shp)
    if k == "HP":
        return I.HPSpace(1), dict(t="HP", nside=1)
    if k == "GL":
        nlat = int(rng.integers(1, 4))
        nlon = int(rng.integers(1, 5)) if rng.integers(0, 2) else None
        return I.GLSpace(nlat, nlon), dict(t="GL", nlat=nlat, nlon=nlon)
    if k == "LM":
        lmax = int(rng.integers(0, 4))
        mmax = int(rng.integers(0, lmax + 1)) if rng.integers(0, 2) else None
        return I.LMSpace(lmax, mmax), dict(t="LM", lmax=lmax, mmax=mmax)
    if k == "PS":
        h, d = gen_rg(rng, maxdim, max(maxn, 3), harmonic=True, minn=2)
        mode = int(rng.integers(0, 3))
        bb = None
        if mode == 1:
            nb = int(rng.integers(2, 5))
            try:
                bb = I.PowerSpace.useful_binbounds(h, logarithmic=bool(rng.integers(0, 2)),
                                                   nbin=nb)
            except Exception:
                bb = None
        ps = I.PowerSpace(h, binbounds=bb)
        return ps, dict(t="PS", partner=d, binbounds=None if bb is None else list(map(float, bb)))
    if k == "DOF":
        n = int(rng.integers(2, maxn + 2))
        ndof = int(rng.integers(1, n + 1))
        dofdex = rng.integers(0, ndof, n)
        # every dof must appear: force
        dofdex[:ndof] = np.arange(ndof)
        dom = I.RGSpace(n)
        dd = I.DOFDistributor(I.makeField(dom, dofdex.astype(np.int64)))
        return dd.domain[0], dict(t="DOF", dofdex=dofdex.tolist())
    raise ValueError(k)


def gen_domain_tuple(rng, nsp=(1, 2, 3), maxsize=60, **kw):
    I = ift()
    for _ in range(50):
        n = int(nsp[int(rng.integers(0, len(nsp)))])
        sps, ds = [], []
        for _ in range(n):
            s, d = gen_space(rng, **kw)
            sps.append(s)
            ds.append(d)
        dom = I.DomainTuple.make(tuple(sps))
        if 0 < dom.size <= maxsize:
            return dom, ds
    s, d = gen_rg(rng, 1, 3)
    return I.DomainTuple.make(s), [d]


def gen_array(rng, shape, dtype="f", scale=1.0):
    a = rng.standard_normal(shape) * scale
    if dtype == "c":
        a = a + 1j * rng.standard_normal(shape) * scale
    elif dtype == "i":
        a = rng.integers(-5, 6, shape).astype(np.int64)
    return np.asarray(a)


def gen_field(rng, dom, dtype="f"):
    I = ift()
    return I.makeField(dom, gen_array(rng, dom.shape, dtype))


def gen_multidomain(rng, nkeys=(2, 3), maxsize=12, **kw):
    I = ift()
    n = int(nkeys[int(rng.integers(0, len(nkeys)))])
    d, ds = {}, {}
    for i in range(n):
        key = "k%d" % i
        dom, desc = gen_domain_tuple(rng, nsp=(1, 1, 2), maxsize=maxsize, **kw)
        d[key] = dom
        ds[key] = desc
    return I.MultiDomain.make(d), ds


def gen_multifield(rng, mdom, dtype="f"):
    I = ift()
    return I.MultiField.from_dict({k: gen_field(rng, mdom[k], dtype) for k in mdom.keys()})


# ------------------------------------------------------------- comparison ---
def close(a, b, rtol=1e-9, atol=1e-300):
    """norm-wise closeness (DESIGN §4 'algebraic identity')"""
    a = np.asarray(a)
    b = np.asarray(b)
    if a.shape != b.shape:
        return False
    if a.size == 0:
        return True
    if not (np.all(np.isfinite(a)) and np.all(np.isfinite(b))):
        return bool(np.array_equal(a, b, equal_nan=True))
    sc = max(np.max(np.abs(a)), np.max(np.abs(b)))
    return bool(np.max(np.abs(a - b)) <= rtol * sc + atol)


def maxdev(a, b):
    a = np.asarray(a)
    b = np.asarray(b)
    if a.shape != b.shape:
        return float("inf")
    if a.size == 0:
        return 0.0
    sc = max(np.max(np.abs(a)), np.max(np.abs(b)), 1e-300)
    return float(np.max(np.abs(a - b)) / sc)


def fbytes(f):
    """canonical bytes of a Field / MultiField / ndarray / scalar (bit-identity)"""
    I = ift()
    if isinstance(f, I.MultiField):
        return b"".join(k.encode() + fbytes(f[k]) for k in sorted(f.keys()))
    if isinstance(f, I.Field):
        # NB: not f.asnumpy() — that call has the side effect of setting the numpy
        # write flag of the field's buffer, which would make the observer change
        # the observed (C07).
        a = np.ascontiguousarray(f.raw)
        return str(a.dtype).encode() + str(a.shape).encode() + a.tobytes()
    a = np.ascontiguousarray(np.asarray(f))
    return str(a.dtype).encode() + str(a.shape).encode() + a.tobytes()
