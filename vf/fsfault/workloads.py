"""Small multi-iteration VI workloads for the crash/resume checks (C24, C25) and
the reproducibility check (C21).  Each returns a JSON-able digest dict of the
final results (sha256 over dtype/shape/bytes of every array, in a canonical order).
"""
import hashlib
import os

import numpy as np


def _h():
    return hashlib.sha256()


def _upd(h, a):
    a = np.ascontiguousarray(np.asarray(a))
    h.update(str(a.dtype).encode())
    h.update(str(a.shape).encode())
    h.update(a.tobytes())


# ----------------------------------------------------------------------- re --
def re_model(params):
    import jax
    import jax.numpy as jnp
    import nifty.re as jft
    jax.config.update("jax_enable_x64", True)
    rng = np.random.default_rng(params.get("model_seed", 1))
    data = jnp.asarray(rng.standard_normal(4))
    W = jnp.asarray(rng.standard_normal((4, 3)))

    def fwd(x):
        return W @ jnp.tanh(x["a"]) * jnp.exp(0.3 * x["b"][0]) + x["b"][1]

    lh = jft.Gaussian(data, noise_cov_inv=lambda x: 4.0 * x, noise_std_inv=lambda x: 2.0 * x).amend(fwd)
    pos = {"a": jnp.asarray(rng.standard_normal(3) * 0.1), "b": jnp.asarray(rng.standard_normal(2) * 0.1)}
    return jft, lh, pos


def re_digest(samples, state):
    import jax
    out = {}
    for name, tree in [("pos", samples.pos), ("samples", samples._samples), ("keys", samples.keys),
                       ("state_nit", state.nit), ("state_key", state.key),
                       ("state_sample_state", state.sample_state),
                       ("state_minimization_state", state.minimization_state)]:
        h = _h()
        leaves, treedef = jax.tree_util.tree_flatten(tree)
        h.update(str(treedef).encode())
        for lf in leaves:
            try:
                lf = jax.random.key_data(lf) if jax.dtypes.issubdtype(lf.dtype, jax.dtypes.prng_key) else lf
            except Exception:
                pass
            _upd(h, lf)
        out[name] = h.hexdigest()
    return out


def re_run(params, odir):
    import jax
    jft, lh, pos = re_model(params)
    cb_log = []
    kw = {}
    if params.get("callback"):
        kw["callback"] = lambda s, st: cb_log.append(int(st.nit))
    samples, state = jft.optimize_kl(
        lh, jft.Vector(pos), key=jax.random.PRNGKey(params.get("key", 42)),
        n_total_iterations=params.get("n_iter", 3), n_samples=params.get("n_samples", 2),
        sample_mode=params.get("sample_mode", "nonlinear_resample"),
        draw_linear_kwargs=dict(cg_name=None, cg_kwargs=dict(absdelta=1e-8, maxiter=20)),
        nonlinearly_update_kwargs=dict(minimize_kwargs=dict(name=None, xtol=1e-4, cg_kwargs=dict(name=None),
                                                            maxiter=3)),
        kl_kwargs=dict(minimize_kwargs=dict(name=None, xtol=1e-4, cg_kwargs=dict(name=None), maxiter=4)),
        odir=odir, resume=params.get("resume", False),
        residual_map=params.get("residual_map", "lmap"),
        kl_map=params.get("kl_map", "vmap") if params.get("kl_map") else jax.vmap,
        jit=params.get("jit", True), **kw)
    d = re_digest(samples, state)
    d["callback_log"] = cb_log
    d["nit"] = int(state.nit)
    return d


# ----------------------------------------------------------------------- cl --
def _stub_mpi():
    import sys
    import types
    try:
        import mpi4py.MPI  # noqa
    except Exception:
        m = types.ModuleType("mpi4py")
        mm = types.ModuleType("mpi4py.MPI")

        class Intracomm:
            pass
        mm.Intracomm = Intracomm
        m.MPI = mm
        sys.modules["mpi4py"] = m
        sys.modules["mpi4py.MPI"] = mm


def cl_model(ift, params):
    rng = np.random.default_rng(params.get("model_seed", 1))
    dom = ift.RGSpace(4)
    A = ift.FieldAdapter(dom, "a")
    B = ift.FieldAdapter(dom, "b")
    sig = A + B.ptw("tanh")
    data = ift.makeField(dom, rng.standard_normal(4))
    lh = ift.GaussianEnergy(data=data, inverse_covariance=ift.ScalingOperator(dom, 4.0, np.float64)) @ sig
    pos = ift.MultiField.from_dict({"a": ift.makeField(dom, rng.standard_normal(4) * 0.1),
                                    "b": ift.makeField(dom, rng.standard_normal(4) * 0.1)})
    return dom, sig, lh, pos


def cl_digest(ift, sl, mean):
    from vf.clgen import fbytes
    out = {}
    h = _h()
    n = 0
    for s in sl.iterator():
        h.update(fbytes(s))
        n += 1
    out["samples"] = h.hexdigest()
    out["n_samples"] = n
    out["list_type"] = type(sl).__name__
    h = _h()
    h.update(fbytes(mean))
    out["mean"] = h.hexdigest()
    return out


def cl_run(params, odir):
    _stub_mpi()
    import nifty.cl as ift
    dom, sig, lh, pos = cl_model(ift, params)
    ns = params.get("n_samples", 2)
    if isinstance(ns, list):
        nsl = list(ns)
        ns = lambda i: nsl[min(i, len(nsl) - 1)]  # noqa
    nl = None
    if params.get("geovi"):
        nl = ift.NewtonCG(ift.AbsDeltaEnergyController(1e-3, iteration_limit=2))
    kw = {}
    if params.get("export"):
        kw["export_operator_outputs"] = {"sig": sig}
    with ift.random.Context(params.get("seed", 13)):
        sl, mean = ift.optimize_kl(
            lh, params.get("n_iter", 3), ns,
            ift.NewtonCG(ift.AbsDeltaEnergyController(1e-3, iteration_limit=3)),
            ift.AbsDeltaEnergyController(1e-5, iteration_limit=10),
            nonlinear_sampling_minimizer=nl, initial_position=pos, output_directory=odir,
            save_strategy=params.get("save_strategy", "latest"),
            plot_energy_history=bool(params.get("plots")), plot_minisanity_history=bool(params.get("plots")),
            return_final_position=True, resume=params.get("resume", False), **kw)
    d = cl_digest(ift, sl, mean)
    # persisted state a later load reads
    if odir is not None:
        its = params.get("n_iter", 3) - 1
        base = os.path.join(odir, "pickle", "latest" if params.get("save_strategy", "latest") == "latest"
                            else f"iteration_{its}")
        try:
            if isinstance(sl, ift.ResidualSampleList):
                sl2 = ift.ResidualSampleList.load(base)
                m2 = sl2.mean
            else:
                sl2 = ift.SampleList.load(base)
                m2 = sl2.local_item(0)
            d["persisted"] = cl_digest(ift, sl2, m2)
        except Exception as e:  # noqa
            d["persisted"] = f"unloadable:{type(e).__name__}:{e}"
    return d


RUN = {"re": re_run, "cl": cl_run}
