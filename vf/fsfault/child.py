"""Child runner:  python -m vf.fsfault.child spec.json

spec = {workload: "re"|"cl", params: {...}, odir: path, mode: "record"|"crash"|"plain",
        kill_index: int, phase: str, out: result-json path, events_out: path|None}
Installs the failpoint layer *before* importing nifty, runs the workload, writes the result
digest (atomically, outside the watched directory) and the event/audit logs.
"""
import json
import os
import sys


def main():
    spec = json.load(open(sys.argv[1]))
    from vf.fsfault import layer
    L = None
    if spec["mode"] in ("record", "crash"):
        L = layer.install(spec["odir"], mode=spec["mode"], kill_index=spec.get("kill_index"),
                          phase=spec.get("phase"), log_path=None)
        layer.install_h5py(L)
    from vf.fsfault import workloads
    res = workloads.RUN[spec["workload"]](spec["params"], spec["odir"])
    out = dict(result=res)
    if L is not None:
        out["events"] = L.events
        out["audit"] = L.audit
    tmp = spec["out"] + ".tmp"
    with (L.orig_open if L else open)(tmp, "w") as f:
        json.dump(out, f)
    os.replace(tmp, spec["out"]) if L is None else os.rename(tmp, spec["out"])


if __name__ == "__main__":
    main()
