"""Parent-side driver for crash/resume experiments: runs children, builds crash plans,
cross-checks the completeness of the recorded event list (audit hook, strace)."""
import json
import os
import re
import shutil
import signal
import subprocess
import sys

PY = "/venv/bin/python"

PHASES = {
    "open": ["before", "after"],
    "write": ["before", "after", "after_flushed", "torn13", "torn23"],
    "flush": ["before", "after"],
    "truncate": ["before", "after"],
    "close": ["before", "after"],
    "remove": ["before", "after"],
    "rename": ["before", "after"],
    "mkdir": ["before", "after"],
    "rmdir": ["before", "after"],
    "h5create": ["before", "after"],
    "h5close": ["before", "after"],
}


def child_env():
    env = dict(os.environ)
    # NB: no persistent JAX compilation cache — executables loaded from the cache were observed
    # to give results that differ in the last bits from freshly compiled ones, which would
    # break the bit-identity oracle for reasons unrelated to NIFTy.
    for k in ("JAX_COMPILATION_CACHE_DIR",):
        env.pop(k, None)
    return env


def run_child(spec, tag, workdir, timeout=600, strace_log=None):
    """returns (returncode, result-dict-or-None, stderr tail)"""
    sp = os.path.join(workdir, f"spec_{tag}.json")
    out = os.path.join(workdir, f"out_{tag}.json")
    spec = dict(spec, out=out)
    if os.path.exists(out):
        os.remove(out)
    with open(sp, "w") as f:
        json.dump(spec, f)
    cmd = [PY, "-B", "-m", "vf.fsfault.child", sp]
    if strace_log:
        cmd = ["strace", "-f", "-qq", "-e",
               "trace=openat,open,creat,rename,renameat,renameat2,unlink,unlinkat,mkdir,mkdirat,"
               "truncate,ftruncate,rmdir", "-o", strace_log] + cmd
    try:
        p = subprocess.run(cmd, cwd=os.path.dirname(os.path.dirname(os.path.dirname(os.path.abspath(__file__)))),
                           env=child_env(), capture_output=True, text=True, timeout=timeout)
        rc, err = p.returncode, (p.stderr or "")[-2500:]
    except subprocess.TimeoutExpired:
        return "timeout", None, ""
    res = None
    if os.path.exists(out):
        with open(out) as f:
            res = json.load(f)
        os.remove(out)
    os.remove(sp)
    return rc, res, err


def crash_plan(events, quick, rng=None, file_class=None):
    """list of (event index, phase); quick = one representative per (file class, kind, phase),
    preferring events that are not the first of their class (an older generation of the file
    exists then — the interesting case)"""
    fc = file_class or (lambda p: re.sub(r"\d+", "#", p))
    full = [(e["i"], ph) for e in events for ph in PHASES.get(e["kind"], ["before", "after"])]
    if not quick:
        return full
    groups = {}
    for e in events:
        for ph in PHASES.get(e["kind"], ["before", "after"]):
            groups.setdefault((fc(e["path"]), e["kind"], ph), []).append(e["i"])
    plan = []
    for key, idxs in sorted(groups.items()):
        # second occurrence if available (old generation present), else the only one
        pick = idxs[1] if len(idxs) > 1 else idxs[0]
        if rng is not None and len(idxs) > 2:
            pick = idxs[1 + int(rng.integers(0, len(idxs) - 1))]
        plan.append((pick, key[2]))
    return plan


def audit_consistent(events, audit):
    """multiset of proxy 'open'/remove/rename/mkdir events == multiset of audit-hook events"""
    from collections import Counter
    a = Counter()
    for ev, path in audit:
        k = {"open": "open", "os.remove": "remove", "os.rename": "rename", "os.mkdir": "mkdir",
             "os.rmdir": "rmdir", "os.truncate": "truncate"}.get(ev, ev)
        a[(k, path)] += 1
    b = Counter()
    for e in events:
        if e["kind"] in ("open", "remove", "rename", "mkdir", "rmdir"):
            b[(e["kind"], e["path"])] += 1
    # rename audit path is the source; our event path is the last watched path (dest) -> compare counts only
    ra = sum(v for (k, _), v in a.items() if k == "rename")
    rb = sum(v for (k, _), v in b.items() if k == "rename")
    a2 = Counter({k: v for k, v in a.items() if k[0] != "rename"})
    b2 = Counter({k: v for k, v in b.items() if k[0] != "rename"})
    diff = (a2 - b2) + (b2 - a2)
    return (not diff and ra == rb), dict(diff=[list(map(str, k)) for k in diff][:10], renames=(ra, rb))


def strace_mutations(log, odir):
    """mutating syscalls on paths under odir from a strace log: list of (op, relpath)"""
    odir = os.path.realpath(odir)
    out = []
    pat = re.compile(r'^\d+\s+(\w+)\((.*)$')
    with open(log, errors="replace") as f:
        for line in f:
            m = pat.match(line)
            if not m:
                continue
            name, rest = m.group(1), m.group(2)
            if "= -1" in rest.split(")")[-1]:
                continue
            paths = re.findall(r'"((?:[^"\\]|\\.)*)"', rest)
            paths = [p for p in paths if os.path.realpath(p).startswith(odir + os.sep)
                     or os.path.realpath(p) == odir]
            if not paths:
                continue
            if name in ("openat", "open", "creat"):
                if any(fl in rest for fl in ("O_WRONLY", "O_RDWR", "O_CREAT", "O_TRUNC", "O_APPEND")) \
                        or name == "creat":
                    if "O_DIRECTORY" in rest:
                        continue
                    out.append(("open", os.path.relpath(os.path.realpath(paths[0]), odir)))
            elif name in ("unlink", "unlinkat"):
                if "AT_REMOVEDIR" in rest:
                    out.append(("rmdir", os.path.relpath(os.path.realpath(paths[0]), odir)))
                else:
                    out.append(("remove", os.path.relpath(os.path.realpath(paths[0]), odir)))
            elif name.startswith("rename"):
                out.append(("rename", os.path.relpath(os.path.realpath(paths[-1]), odir)))
            elif name in ("mkdir", "mkdirat"):
                out.append(("mkdir", os.path.relpath(os.path.realpath(paths[0]), odir)))
            elif name == "rmdir":
                out.append(("rmdir", os.path.relpath(os.path.realpath(paths[0]), odir)))
            elif name in ("truncate",):
                out.append(("truncate", os.path.relpath(os.path.realpath(paths[0]), odir)))
    return out


def strace_consistent(events, muts, ignore=lambda p: False):
    from collections import Counter
    a = Counter((k, p) for k, p in muts if not ignore(p))
    b = Counter()
    for e in events:
        k = {"h5create": "open"}.get(e["kind"], e["kind"])
        if k in ("open", "remove", "rename", "mkdir", "rmdir") and not ignore(e["path"]):
            b[(k, e["path"])] += 1
    # HDF5 files are written by a C library that may open the file more than once per creation:
    # the layer has one coarse h5create/h5close event pair per file generation, so only presence counts
    h5 = {p for (k, p) in b if p.endswith((".hdf5", ".h5")) and k == "open"}
    for key in list(a):
        if key[1] in h5 and key[0] == "open":
            a[key] = min(a[key], b[key])
    missing = a - b       # syscalls the layer did not see  -> crash-point space incomplete
    return (not missing), [list(k) + [v] for k, v in missing.items()][:10]


def died_by_kill(rc):
    return rc == -signal.SIGKILL or rc == 128 + signal.SIGKILL or rc == 137
