"""File-system failpoint layer (DESIGN §3.6).

Installed in a child process *before* NIFTy is imported.  Every mutating
file-system operation on a path under the watched directory becomes a numbered
event:

    open(path, mode)         for modes that create/truncate/append ('w','a','x','+')
    write(path, nbytes)      every write()/writelines() on such a file
    flush(path) truncate(path) close(path)
    remove / unlink / rename / replace / mkdir / makedirs / rmdir / Path.unlink ...
    h5create(path) / h5close(path)    (h5py writes through its C library: coarse events)

mode 'record': events are appended to a log.
mode 'crash' : at event number K the process kills itself with SIGKILL
               phase 'before'        – before performing the operation
               phase 'after'         – after performing it (userspace buffers are lost)
               phase 'after_flushed' – after performing it and flushing the file to the OS
               phase 'torn13'/'torn23' – (write events) write only 1/3 or 2/3 of the
                                       buffer, flush it, then kill

An independent ``sys.addaudithook`` counts open-for-write / os.* audit events on
the same paths so that the harness can detect write paths that bypass the
proxies (completeness monitor).
"""
import builtins
import io
import json
import os
import signal
import sys

_STATE = dict(installed=False)


def _kill():
    sys.stdout.flush()
    sys.stderr.flush()
    os.kill(os.getpid(), signal.SIGKILL)


class Layer:
    def __init__(self, root, mode="record", kill_index=None, phase=None, log_path=None):
        self.root = os.path.realpath(root)
        self.mode, self.kill_index, self.phase = mode, kill_index, phase
        self.log_path = log_path
        self.events = []
        self.audit = []
        self.n = 0
        self._in_hook = False
        self.orig_open = io.open

    # ------------------------------------------------------------------
    def watched(self, path):
        try:
            if isinstance(path, int):
                return False
            p = os.path.realpath(os.fspath(path))
        except Exception:
            return False
        return p == self.root or p.startswith(self.root + os.sep)

    def rel(self, path):
        p = os.path.realpath(os.fspath(path))
        return os.path.relpath(p, self.root)

    def event(self, kind, path, perform, nbytes=None, fileobj=None, data=None, extra=None):
        """register event; run ``perform`` (callable) according to the crash plan"""
        idx = self.n
        self.n += 1
        rec = dict(i=idx, kind=kind, path=self.rel(path))
        if nbytes is not None:
            rec["nbytes"] = nbytes
        if extra:
            rec.update(extra)
        self.events.append(rec)
        if self.log_path and self.mode == "record":
            with self.orig_open(self.log_path, "a") as f:
                f.write(json.dumps(rec) + "\n")
        if self.mode == "crash" and idx == self.kill_index:
            ph = self.phase
            if ph == "before":
                _kill()
            if ph in ("torn13", "torn23") and kind == "write" and data is not None:
                frac = 1 / 3 if ph == "torn13" else 2 / 3
                k = max(0, min(len(data) - 1, int(len(data) * frac))) if len(data) > 1 else 0
                try:
                    fileobj.write(data[:k])
                    fileobj.flush()
                finally:
                    _kill()
            res = perform()
            if ph == "after_flushed" and fileobj is not None:
                try:
                    fileobj.flush()
                    os.fsync(fileobj.fileno())
                except Exception:
                    pass
            _kill()
            return res
        return perform()


class FileProxy:
    """wraps a real file object opened for writing under the watched root"""

    def __init__(self, layer, f, path):
        object.__setattr__(self, "_l", layer)
        object.__setattr__(self, "_f", f)
        object.__setattr__(self, "_p", path)

    def write(self, data):
        n = len(data)
        return self._l.event("write", self._p, lambda: self._f.write(data), nbytes=n,
                             fileobj=self._f, data=data)

    def writelines(self, lines):
        for ln in lines:
            self.write(ln)

    def flush(self):
        return self._l.event("flush", self._p, lambda: self._f.flush(), fileobj=self._f)

    def truncate(self, *a):
        return self._l.event("truncate", self._p, lambda: self._f.truncate(*a), fileobj=self._f)

    def close(self):
        if self._f.closed:
            return None
        return self._l.event("close", self._p, lambda: self._f.close())

    def __enter__(self):
        return self

    def __exit__(self, *exc):
        self.close()
        return False

    def __iter__(self):
        return iter(self._f)

    def __getattr__(self, name):
        return getattr(self._f, name)

    def __setattr__(self, name, value):
        setattr(self._f, name, value)

    def __del__(self):
        try:
            if not self._f.closed:
                self._f.close()
        except Exception:
            pass


def _is_write_mode(mode):
    return any(c in mode for c in "wax+")


def install(root, mode="record", kill_index=None, phase=None, log_path=None):
    """install the layer; returns the Layer"""
    L = Layer(root, mode, kill_index, phase, log_path)
    _STATE["layer"] = L
    orig_open = io.open
    L.orig_open = orig_open

    def audit_hook(event, args):
        if L._in_hook:
            return
        try:
            if event == "open":
                path, md, flags = args
                if isinstance(path, (str, bytes, os.PathLike)) and L.watched(path):
                    w = (md is not None and _is_write_mode(md)) or \
                        (flags is not None and flags & (os.O_WRONLY | os.O_RDWR | os.O_CREAT | os.O_TRUNC))
                    if w:
                        L.audit.append(("open", L.rel(path)))
            elif event in ("os.remove", "os.rename", "os.mkdir", "os.rmdir", "os.truncate",
                           "shutil.rmtree", "shutil.move", "shutil.copyfile"):
                p = args[0]
                if isinstance(p, (str, bytes, os.PathLike)) and L.watched(p):
                    L.audit.append((event, L.rel(p)))
        except Exception:
            pass

    sys.addaudithook(audit_hook)

    def my_open(file, mode="r", *a, **kw):
        if isinstance(file, (str, bytes, os.PathLike)) and _is_write_mode(mode) and L.watched(file):
            L._in_hook = False
            f = L.event("open", file, lambda: orig_open(file, mode, *a, **kw), extra=dict(mode=mode))
            return FileProxy(L, f, file)
        return orig_open(file, mode, *a, **kw)

    builtins.open = my_open
    io.open = my_open

    def wrap_os(name, kind, npaths=1):
        orig = getattr(os, name)

        def f(*a, **kw):
            paths = [x for x in a[:npaths] if isinstance(x, (str, bytes, os.PathLike))]
            if paths and any(L.watched(p) for p in paths):
                tgt = [p for p in paths if L.watched(p)][-1]
                return L.event(kind, tgt, lambda: orig(*a, **kw))
            return orig(*a, **kw)
        f.__name__ = name
        setattr(os, name, f)
        return orig

    for nm, kind, npth in [("remove", "remove", 1), ("unlink", "remove", 1), ("rename", "rename", 2),
                           ("replace", "rename", 2), ("mkdir", "mkdir", 1), ("rmdir", "rmdir", 1),
                           ("truncate", "truncate", 1)]:
        wrap_os(nm, kind, npth)
    # os.makedirs calls os.mkdir (wrapped) internally -> covered.
    # pathlib uses os.* functions looked up at call time on CPython 3.12 -> covered.
    return L


def install_h5py(L):
    """coarse events for h5py (C-level I/O)"""
    try:
        import h5py
    except ImportError:
        return
    orig_init = h5py.File.__init__
    orig_close = h5py.File.close

    def init(self, name, mode="r", *a, **kw):
        if isinstance(name, (str, bytes, os.PathLike)) and mode != "r" and L.watched(name):
            self._vf_path = name
            return L.event("h5create", name, lambda: orig_init(self, name, mode, *a, **kw))
        return orig_init(self, name, mode, *a, **kw)

    def close(self):
        p = getattr(self, "_vf_path", None)
        if p is not None:
            return L.event("h5close", p, lambda: orig_close(self))
        return orig_close(self)

    h5py.File.__init__ = init
    h5py.File.close = close
