"""Shared parent_pre / case logic of the crash-resume checks (C24: re driver, C25: cl driver)."""
import json
import os
import re
import shutil
import threading

from vf.fsfault import driver as D


def fclass(path):
    return re.sub(r"\d+", "#", path)


def parent_pre(pk, workload, cfgs, cmp_keys, n_double=12, timeout=900, ignore_strace=lambda p: False):
    """reference runs (2 per config, in parallel), determinism + completeness monitors, crash plan"""
    refs = [None] * len(cfgs)
    problems = []
    results = {}

    def worker(ci, rep, use_strace):
        odir = os.path.join(pk.workdir, f"ref{ci}_{rep}", "odir")
        os.makedirs(os.path.dirname(odir), exist_ok=True)
        slog = os.path.join(pk.workdir, f"strace{ci}.log") if use_strace else None
        spec = dict(workload=workload, params=dict(cfgs[ci]), odir=odir, mode="record")
        rc, res, err = D.run_child(spec, f"ref{ci}_{rep}", pk.workdir, timeout=timeout, strace_log=slog)
        results[(ci, rep)] = (rc, res, err, odir, slog)

    sem = threading.Semaphore(16)

    def guarded(*a):
        with sem:
            worker(*a)

    ths = []
    for ci in range(len(cfgs)):
        for rep in range(2):
            t = threading.Thread(target=guarded, args=(ci, rep, pk.tier == "thorough" and rep == 1))
            t.start()
            ths.append(t)
    for t in ths:
        t.join()
    for ci in range(len(cfgs)):
        r0, r1 = results[(ci, 0)], results[(ci, 1)]
        if r0[0] != 0 or r1[0] != 0 or r0[1] is None or r1[1] is None:
            problems.append(f"reference run failed cfg{ci}: rc={r0[0]},{r1[0]} {r0[2][-400:]} {r1[2][-400:]}")
            continue
        ev0 = [(e["kind"], e["path"]) for e in r0[1]["events"]]
        ev1 = [(e["kind"], e["path"]) for e in r1[1]["events"]]
        if ev0 != ev1:
            problems.append(f"event lists of two recording runs differ (cfg{ci})")
            continue
        pk.hit("reference_event_lists_equal")
        if not all(r0[1]["result"].get(k) == r1[1]["result"].get(k) for k in cmp_keys):
            problems.append(f"two uninterrupted runs in fresh processes are not bit-identical (cfg{ci})")
            continue
        pk.hit("reference_runs_bit_identical")
        ok, info = D.audit_consistent(r0[1]["events"], r0[1]["audit"])
        if not ok:
            problems.append(f"audit hook saw file-system mutations the failpoint layer missed: {info}")
            continue
        pk.hit("audit_crosschecks")
        if r1[4]:
            muts = D.strace_mutations(r1[4], r1[3])
            ok, missing = D.strace_consistent(r1[1]["events"], muts, ignore=ignore_strace)
            if not ok:
                problems.append(f"strace saw mutating syscalls the failpoint layer missed: {missing}")
                continue
            pk.hit("strace_crosschecks")
            pk.hit("strace_mutating_syscalls", len(muts))
        refs[ci] = dict(cfg=cfgs[ci], events=r0[1]["events"], result=r0[1]["result"])
    plan = []
    for ci, ref in enumerate(refs):
        if ref is None:
            continue
        rng = pk.rng(ci)
        for idx, ph in D.crash_plan(ref["events"], quick=(pk.tier == "quick"), rng=rng, file_class=fclass):
            e = ref["events"][idx]
            plan.append(dict(cfg=ci, idx=idx, phase=ph, kind=e["kind"], path=e["path"]))
        if pk.tier == "thorough":
            n = len(ref["events"])
            for _ in range(n_double):
                i1 = int(rng.integers(n // 3, n))
                e = ref["events"][i1]
                ph = D.PHASES[e["kind"]][int(rng.integers(0, len(D.PHASES[e["kind"]])))]
                plan.append(dict(cfg=ci, idx=i1, phase=ph, kind=e["kind"], path=e["path"],
                                 second=dict(idx=int(rng.integers(0, max(2, n // 4))),
                                             phase=("before", "after", "torn13")[int(rng.integers(0, 3))])))
    # interleave configs so that a truncated budget still touches all of them
    if pk.tier == "thorough":
        order = pk.rng(4242).permutation(len(plan))
        plan = [plan[int(j)] for j in order]
    else:
        # round-robin over configs
        by = {}
        for p in plan:
            by.setdefault(p["cfg"], []).append(p)
        plan = [p for tup in __import__("itertools").zip_longest(*by.values()) for p in tup if p is not None]
    cli = pk.cfg.get("cases_cli")
    if cli:
        plan = plan[:cli]
    pk.cfg["cases"] = len(plan)
    pk.extra["reference_events"] = [[(e["i"], e["kind"], e["path"], e.get("nbytes")) for e in r["events"]][:150]
                                    for r in refs if r][:2]
    pk.extra["reference_event_counts"] = [len(r["events"]) for r in refs if r]
    pk.extra["crash_points_planned"] = len(plan)
    pk.extra["reference_problems"] = problems
    if problems:
        pk.fatal.extend(problems)
    with open(os.path.join(pk.workdir, "plan.json"), "w") as f:
        json.dump(dict(plan=plan, refs=refs), f)
    for ci in range(len(cfgs)):
        for rep in range(2):
            shutil.rmtree(os.path.join(pk.workdir, f"ref{ci}_{rep}"), ignore_errors=True)


def load_plan(ck):
    with open(os.path.join(os.environ["VERIF_WORKDIR"], "plan.json")) as f:
        d = json.load(f)
    ck.state["plan"], ck.state["refs"] = d["plan"], d["refs"]


def listing(odir):
    out = {}
    if os.path.isdir(odir):
        for root, _, files in os.walk(odir):
            for fn in files:
                p = os.path.join(root, fn)
                out[os.path.relpath(p, odir)] = os.path.getsize(p)
    return out


def _small(e):
    return {k: v for k, v in e.items() if k != "second_events"}


def exc_name(err):
    m = re.findall(r"^([A-Za-z_][\w.]*(?:Error|Exception|Interrupt|Exit))\b", err or "", re.M)
    return m[-1].split(".")[-1] if m else "?"


def run_case(ck, i, workload, cmp_keys, keyfn, nontrivial_fn, timeout=900):
    """one crash point: crash child, (optional second crash), resume child, compare.
    keyfn(outcome, event, cfg, reference_events) -> mechanism key"""
    from vf.runner import Skip
    e = ck.state["plan"][i]
    ref = ck.state["refs"][e["cfg"]]
    wd = os.path.join(os.environ["VERIF_WORKDIR"], f"case{i}")
    odir = os.path.join(wd, "odir")
    os.makedirs(wd, exist_ok=True)
    fc = fclass(e["path"])
    ck.note(dict(cfg=ref["cfg"], event=e["idx"], kind=e["kind"], path=e["path"], phase=e["phase"],
                 second=e.get("second")), nontrivial=nontrivial_fn(e, ref),
            klass=f"{fc}:{e['kind']}:{e['phase']}")
    try:
        spec = dict(workload=workload, params=dict(ref["cfg"]), odir=odir, mode="crash",
                    kill_index=e["idx"], phase=e["phase"])
        rc, res, err = D.run_child(spec, "crash", wd, timeout=timeout)
        if rc == "timeout":
            raise Skip("crash child timed out")
        if not D.died_by_kill(rc):
            if rc == 0:
                raise Skip("crash point not reached (child finished)")
            ck.violation(keyfn("run-raises:" + exc_name(err), e, ref["cfg"], ref["events"]),
                         f"child failed before the crash point rc={rc}: {err[-300:]}", event=_small(e))
            return
        ck.hit("crash_children_killed")
        left = listing(odir)
        if e.get("second"):
            s = e["second"]
            # recording probe of the resumed run on a copy of the directory: gives the event list in
            # which the second crash index is defined (needed to attribute the outcome to a window)
            probe = os.path.join(wd, "probe_odir")
            if os.path.isdir(odir):
                shutil.copytree(odir, probe)
            specp = dict(workload=workload, params=dict(ref["cfg"], resume=True), odir=probe, mode="record")
            rcp, resp, errp = D.run_child(specp, "probe", wd, timeout=timeout)
            shutil.rmtree(probe, ignore_errors=True)
            e = dict(e)
            if rcp == 0 and resp is not None and s["idx"] < len(resp["events"]):
                ev2 = resp["events"]
                e["second_events"] = ev2
                e["second_event"] = dict(idx=s["idx"], phase=s["phase"], kind=ev2[s["idx"]]["kind"],
                                         path=ev2[s["idx"]]["path"])
                ck.hit("second_crash_probes")
            elif rcp != 0 and rcp != "timeout":
                ck.violation(keyfn("resume-raises:" + exc_name(errp), e, ref["cfg"], ref["events"]),
                             f"resumed run after the first crash failed: {errp.strip().splitlines()[-1][:200] if errp.strip() else rcp}",
                             event=_small(e), files_left=left, stderr=errp[-1200:])
                return
            spec2 = dict(workload=workload, params=dict(ref["cfg"], resume=True), odir=odir, mode="crash",
                         kill_index=s["idx"], phase=s["phase"])
            rc2, _, err2 = D.run_child(spec2, "crash2", wd, timeout=timeout)
            if rc2 == "timeout":
                raise Skip("second crash child timed out")
            if D.died_by_kill(rc2):
                ck.hit("second_crashes_killed")
            elif rc2 != 0:
                ck.violation(keyfn("resume-raises:" + exc_name(err2), e, ref["cfg"], ref["events"]),
                             f"resumed run (to be crashed again) failed: {err2[-300:]}", event=_small(e), files_left=left)
                return
        spec3 = dict(workload=workload, params=dict(ref["cfg"], resume=True), odir=odir, mode="plain")
        rc3, res3, err3 = D.run_child(spec3, "resume", wd, timeout=timeout)
        if rc3 == "timeout":
            raise Skip("resume child timed out")
        ck.hit("resume_runs")
        if rc3 != 0 or res3 is None:
            last = err3.strip().splitlines()[-1][:200] if err3.strip() else str(rc3)
            ck.violation(keyfn("resume-raises:" + exc_name(err3), e, ref["cfg"], ref["events"]),
                         f"after a kill at event {e['idx']} ({e['kind']} {e['path']}, phase {e['phase']}) the "
                         f"run with resume=True fails: {last}", event=_small(e), files_left=left, stderr=err3[-1200:])
            return
        ck.hit("digest_comparisons", len(cmp_keys))
        diff = [k for k in cmp_keys if res3["result"].get(k) != ref["result"].get(k)]
        if diff:
            ck.violation(keyfn("resume-differs", e, ref["cfg"], ref["events"]),
                         f"resumed run finished but {diff} differ from the uninterrupted run "
                         f"(kill at event {e['idx']}: {e['kind']} {e['path']}, {e['phase']})",
                         event=_small(e), files_left=left, got={k: res3["result"].get(k) for k in diff},
                         want={k: ref["result"].get(k) for k in diff})
    finally:
        shutil.rmtree(wd, ignore_errors=True)
