"""Runner: tiers, seeds, worker processes, watchdog, evidence, verdict lines.

A check is a module ``checks.cNN_name`` with

    META = dict(id='C07', level='exploration', rule='...', assumptions=[...],
                quick=dict(cases=N, workers=W, budget_s=S),
                thorough=dict(cases=N, workers=W, budget_s=S),
                need=['monitor names that must have >0 hits'], ...)
    def init(ck): ...            # once per worker, optional
    def case(ck, i): ...         # one generated case; talks to ``ck``
    def fini(ck): ...            # once per worker after its cases, optional
    def parent_pre(pk): ...      # optional, runs in the parent before workers
    def parent_post(pk, agg): ...# optional, runs in the parent after workers

The parent splits the case indices round-robin over W worker processes
(fresh interpreters: NIFTy keeps module-level state and JAX must not be
forked), aggregates their JSONL result streams, classifies violations against
known_findings.json, writes evidence/<id>.json and prints the verdict lines:

    VIOLATION property=<id> replay=<path>      (exit 1)
    KNOWN-FINDING: property=<id> <what fails>  (exit 0 if nothing else)
    INCONCLUSIVE property=<id> <why>           (exit 2)
"""
import os
import sys
import json
import time
import glob
import hashlib
import importlib
import subprocess
import traceback

ROOT = os.path.dirname(os.path.dirname(os.path.abspath(__file__)))
REPO = os.environ.get("VERIF_REPO", "/repo")
DEPS = os.path.join(ROOT, ".deps")
PY = "/venv/bin/python"


# ----------------------------------------------------------------------------
# environment
# ----------------------------------------------------------------------------
def ensure_deps():
    """icontract/deal from the offline wheelhouse into /verif/.deps (ignored dir)."""
    if os.path.isdir(os.path.join(DEPS, "icontract")):
        return
    os.makedirs(DEPS, exist_ok=True)
    cmd = [PY, "-m", "pip", "install", "--quiet", "--no-index", "--find-links",
           "/opt/veriftools/wheels", "--target", DEPS, "icontract", "deal"]
    subprocess.run(cmd, check=False, stdout=subprocess.DEVNULL,
                   stderr=subprocess.DEVNULL)


def child_env(seed, extra=None):
    env = dict(os.environ)
    pp = [REPO, ROOT, DEPS]
    env["PYTHONPATH"] = os.pathsep.join(pp)
    env.setdefault("PYTHONHASHSEED", str(seed % 4294967295))
    env["JAX_PLATFORMS"] = "cpu"
    env["JAX_ENABLE_X64"] = "1"
    env["NIFTY_VERIF"] = "1"
    env["PYTHONDONTWRITEBYTECODE"] = "1"
    env.setdefault("OMP_NUM_THREADS", "1")
    env.setdefault("OPENBLAS_NUM_THREADS", "1")
    env.setdefault("MKL_NUM_THREADS", "1")
    env.setdefault("XLA_FLAGS", "--xla_cpu_multi_thread_eigen=false "
                   "intra_op_parallelism_threads=1")
    env.setdefault("MPLBACKEND", "Agg")
    if extra:
        env.update(extra)
    return env


def find_module(pid):
    pid = pid.upper()
    hits = glob.glob(os.path.join(ROOT, "checks", pid.lower() + "_*.py"))
    if len(hits) != 1:
        raise SystemExit(f"no unique check module for {pid}: {hits}")
    return "checks." + os.path.basename(hits[0])[:-3]


def jdefault(o):
    try:
        import numpy as np
        if isinstance(o, np.generic):
            return o.item()
        if isinstance(o, np.ndarray):
            return o.tolist()
    except Exception:
        pass
    if isinstance(o, complex):
        return [o.real, o.imag]
    if isinstance(o, (set, frozenset)):
        return sorted(map(str, o))
    return repr(o)


def jdump(o):
    return json.dumps(o, default=jdefault, sort_keys=True)


# ----------------------------------------------------------------------------
# worker side
# ----------------------------------------------------------------------------
class Skip(Exception):
    """Raised by a case whose oracle precondition is not met (inconclusive case)."""


class CaseCtx:
    """What a check's ``case(ck, i)`` talks to."""

    def __init__(self, pid, pnum, seed, tier, out, deadline):
        self.pid, self.pnum, self.seed, self.tier = pid, pnum, seed, tier
        self._out = out
        self.deadline = deadline
        self.i = None
        self._reset()
        self.state = {}          # free for the check (per worker)

    # -- per case ---------------------------------------------------------
    def _reset(self):
        self._desc = None
        self._nontrivial = False
        self._klass = None
        self._viol = []
        self._skip = None
        self._hits = {}

    def rng(self, *k):
        import numpy as np
        ks = [self.seed, self.pnum] + [int(x) for x in k]
        if self.i is not None and not k:
            ks.append(int(self.i))
        return np.random.default_rng(ks)

    def thorough(self):
        return self.tier == "thorough"

    def pick(self, quick, thorough):
        return thorough if self.tier == "thorough" else quick

    def note(self, desc, nontrivial=False, klass=None):
        """Describe the generated case (JSON-able), once per case."""
        self._desc = desc
        self._nontrivial = bool(nontrivial)
        self._klass = klass

    def nontrivial(self, flag=True):
        self._nontrivial = bool(flag)

    def violation(self, key, what, **witness):
        """Record a violation. ``key`` is the *mechanism key* (property-level
        class of failure: call site / option / mode), never a random value."""
        self._viol.append(dict(key=key, what=what, witness=witness))

    def skip(self, reason):
        self._skip = reason

    def hit(self, name, n=1):
        self._hits[name] = self._hits.get(name, 0) + int(n)

    def time_left(self):
        return self.deadline - time.time()

    # -- emit ---------------------------------------------------------------
    def _emit(self, rec):
        self._out.write(jdump(rec) + "\n")
        self._out.flush()


def _nifty_frame(tb):
    """innermost traceback frame inside the repository (for crash keys)"""
    last = None
    for fr in traceback.extract_tb(tb):
        if "/nifty/" in fr.filename and "/verif/" not in fr.filename:
            last = fr
    if last is None:
        return None
    return f"{os.path.basename(last.filename)}:{last.name}"


def worker_main(argv):
    modname, pid, seed, tier, start, step, ncases, outpath, deadline = argv[:9]
    only = argv[9] if len(argv) > 9 else ""
    seed, start, step, ncases = int(seed), int(start), int(step), int(ncases)
    deadline = float(deadline)
    pnum = int(pid[1:])
    sys.setrecursionlimit(10000)
    out = open(outpath, "a", buffering=1)
    ck = CaseCtx(pid, pnum, seed, tier, out, deadline)
    try:
        mod = importlib.import_module(modname)
        if hasattr(mod, "init"):
            mod.init(ck)
    except BaseException:
        ck._emit(dict(t="fatal", where="init", tb=traceback.format_exc()))
        return 3
    indices = [int(x) for x in only.split(",")] if only else range(start, ncases, step)
    for i in indices:
        if time.time() > deadline:
            ck._emit(dict(t="notrun", i=i))
            continue
        ck.i = i
        ck._reset()
        t0 = time.time()
        crash = None
        try:
            mod.case(ck, i)
        except Skip as e:
            ck._skip = str(e) or "skip"
        except BaseException as e:  # noqa: a crash inside a case is a finding candidate
            if isinstance(e, KeyboardInterrupt):
                raise
            fr = _nifty_frame(e.__traceback__)
            where = fr if fr else "harness"
            crash = dict(key=f"crash:{type(e).__name__}@{where}",
                         what=f"unexpected {type(e).__name__}: {str(e)[:300]}",
                         witness=dict(tb=traceback.format_exc()[-3000:]))
            ck._viol.append(crash)
        rec = dict(t="case", i=i, desc=ck._desc, nt=ck._nontrivial, k=ck._klass,
                   v=ck._viol, s=ck._skip, h=ck._hits, dt=round(time.time() - t0, 4))
        ck._emit(rec)
    ck.i = None
    ck._reset()
    if hasattr(mod, "fini"):
        try:
            mod.fini(ck)
            if ck._viol or ck._hits:
                ck._emit(dict(t="case", i=-1, desc=ck._desc or {"fini": True}, nt=False,
                              k="fini", v=ck._viol, s=None, h=ck._hits, dt=0.0))
        except BaseException:
            ck._emit(dict(t="fatal", where="fini", tb=traceback.format_exc()))
            return 3
    ck._emit(dict(t="done"))
    return 0


# ----------------------------------------------------------------------------
# parent side
# ----------------------------------------------------------------------------
def load_known():
    p = os.path.join(ROOT, "known_findings.json")
    if not os.path.exists(p):
        return []
    with open(p) as f:
        return json.load(f).get("findings", [])


class Parent:
    """Aggregation state; also handed to parent_pre/parent_post hooks so that
    checks which drive their own child processes can report through it."""

    def __init__(self, pid, meta, tier, seed):
        self.pid, self.meta, self.tier, self.seed = pid, meta, tier, seed
        self.pnum = int(pid[1:])
        self.evaluations = 0
        self.nontrivial = set()
        self.klasses = {}
        self.skips = {}
        self.hits = {}
        self.violations = []      # dict(key, what, witness, i, desc)
        self.samples = []
        self.notrun = 0
        self.fatal = []
        self.extra = {}           # extra coverage keys
        self.t0 = time.time()
        self.exhaustive = False

    def rng(self, *k):
        import numpy as np
        return np.random.default_rng([self.seed, self.pnum] + [int(x) for x in k])

    def pick(self, quick, thorough):
        return thorough if self.tier == "thorough" else quick

    def add_case(self, desc, nontrivial=False, klass=None, violations=(), skip=None,
                 hits=None, i=None):
        self.evaluations += 1
        h = hashlib.sha1(jdump(desc).encode()).hexdigest()[:16]
        if skip:
            self.skips[skip] = self.skips.get(skip, 0) + 1
        elif nontrivial:
            self.nontrivial.add(h)
        if klass is not None:
            self.klasses[klass] = self.klasses.get(klass, 0) + 1
        for k, n in (hits or {}).items():
            self.hits[k] = self.hits.get(k, 0) + n
        for v in violations:
            self.violations.append(dict(v, i=i, desc=desc))
        if desc is not None and len(self.samples) < 6 and not skip and \
                (nontrivial or len(self.samples) < 2):
            self.samples.append(desc)

    def hit(self, name, n=1):
        self.hits[name] = self.hits.get(name, 0) + n


def run_parent(pid, tier, seed, workers=None, cases=None, only=None, budget=None):
    modname = find_module(pid)
    sys.path[:0] = [ROOT]
    # the parent itself never imports nifty unless the check's hooks do
    # the parent's own environment = the workers' environment, so that children started from
    # parent_pre (reference runs) and from workers (cases) see identical XLA/BLAS settings
    os.environ.update(child_env(seed))
    for p in (REPO, DEPS):
        if p not in sys.path:
            sys.path.insert(0, p)
    mod = importlib.import_module(modname)
    meta = mod.META
    cfg = dict(meta.get(tier) or meta["quick"])
    if workers:
        cfg["workers"] = workers
    if cases:
        cfg["cases"] = cases
        cfg["cases_cli"] = cases
    if budget:
        cfg["budget_s"] = budget
    budget_s = float(cfg.get("budget_s", 60))
    pk = Parent(pid, meta, tier, seed)
    pk.partial = only is not None      # --only/--replay runs do not overwrite the evidence
    pk.only = only
    pk.cfg = cfg
    workdir = os.path.join(ROOT, ".work", f"{pid}-{os.getpid()}")
    os.makedirs(workdir, exist_ok=True)
    pk.workdir = workdir
    os.environ["VERIF_WORKDIR"] = workdir
    deadline = time.time() + budget_s
    pk.deadline = deadline

    if hasattr(mod, "parent_pre"):
        mod.parent_pre(pk)          # may adjust pk.cfg["cases"] (e.g. enumerated crash points)
    ncases = int(cfg.get("cases", 0))
    nworkers = max(1, min(int(cfg.get("workers", 4)), max(ncases, 1)))
    deadline = time.time() + budget_s      # the case budget starts after parent_pre
    pk.deadline = deadline

    procs = []
    if ncases > 0 and hasattr(mod, "case"):
        onlys = None
        if only is not None:
            nworkers = 1
        for w in range(nworkers):
            outp = os.path.join(workdir, f"w{w}.jsonl")
            argv = [PY, "-B", "-m", "vf.runner", "--worker", modname, pid, str(seed), tier,
                    str(w), str(nworkers), str(ncases), outp, repr(deadline)]
            if only is not None:
                argv.append(",".join(str(x) for x in only))
            logf = open(os.path.join(workdir, f"w{w}.log"), "w")
            p = subprocess.Popen(argv, cwd=ROOT, env=child_env(seed), stdout=logf,
                                 stderr=subprocess.STDOUT)
            procs.append((p, outp, logf))
        # generous wall-clock watchdog: budget + grace; firing = inconclusive
        hard = deadline + max(120.0, 0.5 * budget_s)
        for p, outp, logf in procs:
            try:
                p.wait(timeout=max(1.0, hard - time.time()))
            except subprocess.TimeoutExpired:
                p.kill()
                p.wait()
                pk.fatal.append(f"worker watchdog fired ({outp})")
            logf.close()
        for w, (p, outp, logf) in enumerate(procs):
            done = False
            if os.path.exists(outp):
                with open(outp) as f:
                    for line in f:
                        try:
                            r = json.loads(line)
                        except Exception:
                            continue
                        if r["t"] == "case":
                            pk.add_case(r["desc"], r["nt"], r["k"], r["v"], r["s"], r["h"],
                                        r["i"])
                            if r["i"] == -1:
                                pk.evaluations -= 1
                        elif r["t"] == "notrun":
                            pk.notrun += 1
                        elif r["t"] == "fatal":
                            pk.fatal.append(f"worker {w} {r['where']}: {r['tb'][-1500:]}")
                        elif r["t"] == "done":
                            done = True
            if not done and not any("watchdog" in x for x in pk.fatal):
                tail = ""
                try:
                    with open(os.path.join(workdir, f"w{w}.log")) as f:
                        tail = f.read()[-1500:]
                except Exception:
                    pass
                pk.fatal.append(f"worker {w} died (rc={p.returncode}): {tail}")

    if hasattr(mod, "parent_post"):
        mod.parent_post(pk)

    rc = finish(pk)
    # remove scratch
    import shutil
    shutil.rmtree(workdir, ignore_errors=True)
    try:
        os.rmdir(os.path.join(ROOT, ".work"))
    except OSError:
        pass
    return rc


def finish(pk):
    pid, meta = pk.pid, pk.meta
    known = [k for k in load_known() if k.get("property") == pid]
    known_keys = {k["key"]: k for k in known}
    viol_new, viol_known = {}, {}
    for v in pk.violations:
        (viol_known if v["key"] in known_keys else viol_new).setdefault(v["key"], []).append(v)

    lines = []
    rdir = os.path.join(ROOT, "replays", pid)
    for key, vs in sorted(viol_new.items()):
        os.makedirs(rdir, exist_ok=True)
        for v in vs[:2]:
            payload = dict(property=pid, seed=pk.seed, tier=pk.tier, case_index=v.get("i"),
                           key=key, what=v["what"], desc=v.get("desc"),
                           witness=v.get("witness"), n_same_key=len(vs))
            h = hashlib.sha1(jdump([key, v.get("i"), pk.seed, pk.tier]).encode()).hexdigest()[:12]
            path = os.path.join("replays", pid, f"{h}.json")
            with open(os.path.join(ROOT, path), "w") as f:
                f.write(json.dumps(payload, default=jdefault, indent=1, sort_keys=True))
            lines.append(f"VIOLATION property={pid} replay={path}   "
                         f"[{key}] {v['what'][:200]} (x{len(vs)})")
            break
    for key, vs in sorted(viol_known.items()):
        lines.append(f"KNOWN-FINDING: property={pid} {known_keys[key]['what']} "
                     f"[{key}] (observed x{len(vs)})")

    inconclusive = []
    for m in meta.get("need", []):
        if pk.hits.get(m, 0) <= 0:
            inconclusive.append(f"monitor '{m}' observed nothing")
    for f in pk.fatal:
        inconclusive.append("worker failure: " + f.replace("\n", " | ")[-600:])
    nskip = sum(pk.skips.values())
    if pk.evaluations == 0:
        inconclusive.append("no case was executed")
    elif nskip > meta.get("max_skip_fraction", 0.5) * pk.evaluations:
        inconclusive.append(f"{nskip}/{pk.evaluations} cases skipped")
    if len(pk.nontrivial) < 2:
        inconclusive.append(f"only {len(pk.nontrivial)} distinct non-trivial cases")
    planned = int(pk.cfg.get("cases", 0))
    if planned and pk.notrun > 0.9 * planned:
        inconclusive.append(f"budget exhausted: {pk.notrun}/{planned} cases not run")

    wall = time.time() - pk.t0
    cov = dict(evaluations=pk.evaluations, distinct_nontrivial=len(pk.nontrivial),
               rule=meta.get("rule", ""), samples=pk.samples[:6] or [None],
               monitors=pk.hits, classes=pk.klasses, skipped=pk.skips,
               not_run_budget=pk.notrun,
               violations_new={k: len(v) for k, v in viol_new.items()},
               known_findings_observed={k: len(v) for k, v in viol_known.items()},
               known_findings_listed_not_observed=sorted(set(known_keys) - set(viol_known)),
               inconclusive=inconclusive, exhaustive=bool(pk.exhaustive))
    cov.update(pk.extra)
    ev = dict(property_id=pid, tier=pk.tier, seed=pk.seed, level=meta["level"], coverage=cov,
              assumptions=list(meta.get("assumptions", [])), wall_s=round(wall, 2),
              violations=sum(len(v) for v in viol_new.values()))
    os.makedirs(os.path.join(ROOT, "evidence"), exist_ok=True)
    evname = pid + (".partial.json" if getattr(pk, "partial", False) else ".json")
    if os.path.realpath(REPO) != "/repo":
        # runs against a patched scratch copy (tools/mut.py, seed intake) never touch the evidence of /repo
        evname = pid + ".scratch.json"
    with open(os.path.join(ROOT, "evidence", evname), "w") as f:
        f.write(json.dumps(ev, default=jdefault, indent=1, sort_keys=True) + "\n")

    for ln in lines:
        print(ln)
    mon = ", ".join(f"{k}={v}" for k, v in sorted(pk.hits.items()))
    print(f"[{pid}] tier={pk.tier} seed={pk.seed} evaluations={pk.evaluations} "
          f"distinct_nontrivial={len(pk.nontrivial)} skipped={nskip} notrun={pk.notrun} "
          f"wall={wall:.1f}s")
    if mon:
        print(f"[{pid}] monitors: {mon}")
    if viol_new:
        print(f"[{pid}] RESULT: VIOLATED ({len(viol_new)} mechanism keys)")
        return 1
    if inconclusive:
        for x in inconclusive:
            print(f"INCONCLUSIVE property={pid} {x}")
        return 2
    print(f"[{pid}] RESULT: held on everything explored"
          + (f" ({len(viol_known)} known findings reported)" if viol_known else ""))
    return 0


def main(argv=None):
    # when started as `python -m vf.runner` this module is `__main__`; make `import vf.runner`
    # in check modules resolve to the same module object (otherwise `vf.runner.Skip` raised by a
    # check would be a different class than the one the worker loop catches)
    sys.modules.setdefault("vf.runner", sys.modules[__name__])
    argv = list(sys.argv[1:] if argv is None else argv)
    if argv and argv[0] == "--worker":
        sys.exit(worker_main(argv[1:]))
    import argparse
    ap = argparse.ArgumentParser()
    ap.add_argument("pid")
    ap.add_argument("--tier", default=os.environ.get("VERIF_TIER", "quick"))
    ap.add_argument("--seed", type=int, default=int(os.environ.get("VERIF_SEED", "0") or 0))
    ap.add_argument("--workers", type=int)
    ap.add_argument("--cases", type=int)
    ap.add_argument("--budget", type=float)
    ap.add_argument("--replay")
    ap.add_argument("--only", help="comma-separated case indices")
    a = ap.parse_args(argv)
    if a.tier not in ("quick", "thorough"):
        a.tier = "quick"
    ensure_deps()
    only = None
    if a.replay:
        with open(a.replay) as f:
            r = json.load(f)
        a.seed, a.tier = int(r["seed"]), r["tier"]
        only = [int(r["case_index"])]
        print(f"replaying {r['property']} case {only} seed={a.seed} tier={a.tier}: {r['what']}")
    elif a.only:
        only = [int(x) for x in a.only.split(",")]
    sys.exit(run_parent(a.pid.upper(), a.tier, a.seed, a.workers, a.cases, only, a.budget))


if __name__ == "__main__":
    main()
