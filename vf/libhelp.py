"""Shared helpers of the checks C28, C31, C34, C35, C36 (library-level properties).

Nothing in here imports NIFTy at module import time.
"""
import sys
import types
import numpy as np


# ------------------------------------------------------------ comparisons ---
def ndev(a, b):
    """norm-wise relative deviation max|a-b| / max(max|a|, max|b|) (inf on shape mismatch)"""
    a = np.asarray(a)
    b = np.asarray(b)
    if a.shape != b.shape:
        return float("inf")
    if a.size == 0:
        return 0.0
    fa, fb = np.isfinite(a), np.isfinite(b)
    if not (fa.all() and fb.all()):
        if not np.array_equal(fa, fb):
            return float("inf")
        if not np.array_equal(np.where(fa, 0, a).astype(str), np.where(fb, 0, b).astype(str)):
            return float("inf")
        a = np.where(fa, a, 0)
        b = np.where(fb, b, 0)
    sc = max(np.max(np.abs(a)), np.max(np.abs(b)))
    if sc == 0:
        return 0.0
    return float(np.max(np.abs(a - b)) / sc)


def nclose(a, b, rtol=1e-9, atol=0.0):
    """DESIGN §4 'algebraic identity': max|a-b| <= rtol*max(|a|,|b|) + atol"""
    a = np.asarray(a)
    b = np.asarray(b)
    if a.shape != b.shape:
        return False
    if a.size == 0:
        return True
    if not (np.all(np.isfinite(a)) and np.all(np.isfinite(b))):
        return ndev(a, b) <= rtol
    sc = max(np.max(np.abs(a)), np.max(np.abs(b)))
    return bool(np.max(np.abs(a - b)) <= rtol * sc + atol)


def small(x, nmax=8):
    """small JSON-able excerpt of an array for witnesses"""
    a = np.asarray(x)
    if a.dtype.kind == "c":
        a = np.stack([a.real, a.imag], -1)
    flat = a.reshape(-1)
    return dict(shape=list(np.shape(x)), head=[float(v) for v in flat[:nmax]])


# -------------------------------------------------------------- mpi4py stub ---
def install_mpi_stub():
    """mpi4py cannot load libmpi in this environment: importing mpi4py.MPI raises
    RuntimeError (not ImportError), which nifty.cl.utilities.get_MPI_params does not
    catch.  A stub module whose import fails with ImportError makes NIFTy take its
    documented 'no MPI' branch."""
    if "mpi4py" in sys.modules and getattr(sys.modules["mpi4py"], "_verif_stub", False):
        return

    class _Finder:
        @staticmethod
        def find_spec(name, path=None, target=None):
            if name == "mpi4py" or name.startswith("mpi4py."):
                raise ImportError("mpi4py disabled by the verification harness (no libmpi)")
            return None

    for k in [k for k in sys.modules if k == "mpi4py" or k.startswith("mpi4py.")]:
        del sys.modules[k]
    sys.meta_path.insert(0, _Finder)


def install_mpi_module_stub():
    """Variant: a real (empty) mpi4py.MPI module object with an Intracomm class, for
    code paths that only touch ``mpi4py.MPI.Intracomm`` in isinstance checks."""
    m = types.ModuleType("mpi4py")
    m._verif_stub = True
    mm = types.ModuleType("mpi4py.MPI")

    class Intracomm:      # noqa
        pass
    mm.Intracomm = Intracomm
    mm.COMM_WORLD = None
    m.MPI = mm
    sys.modules["mpi4py"] = m
    sys.modules["mpi4py.MPI"] = mm


# ---------------------------------------------------------------- JAX cache ---
def enable_jax_cache():
    """Persistent XLA compilation cache in the (ignored) directory /verif/.deps/jaxcache.
    Pure optimisation: NIFTy code that is executed eagerly re-compiles many tiny kernels in every
    fresh worker process (and lax.cond / jnp.piecewise with fresh closures on every call); a warm
    cache makes the quick tier ~3x faster.  Results are unaffected (cache key = HLO + options)."""
    import os
    import jax
    d = os.path.join(os.path.dirname(os.path.dirname(os.path.abspath(__file__))), ".deps", "jaxcache")
    try:
        os.makedirs(d, exist_ok=True)
        jax.config.update("jax_compilation_cache_dir", d)
        jax.config.update("jax_persistent_cache_min_compile_time_secs", 0.0)
        jax.config.update("jax_persistent_cache_min_entry_size_bytes", -1)
    except Exception:
        pass


# ------------------------------------------------------------- generators ---
def pick(rng, seq):
    return seq[int(rng.integers(0, len(seq)))]


def rfloat(rng, lo, hi, log=False, nd=4):
    """a 'nice' float (few significant digits so descriptors stay small and exact)"""
    if log:
        v = float(np.exp(rng.uniform(np.log(lo), np.log(hi))))
    else:
        v = float(rng.uniform(lo, hi))
    return float(f"{v:.{nd}g}")


def spd_with_spectrum(rng, ev):
    """random symmetric matrix Q diag(ev) Q^T with Haar-ish orthogonal Q"""
    n = len(ev)
    q, r = np.linalg.qr(rng.standard_normal((n, n)))
    q = q * np.sign(np.diag(r))
    a = (q * np.asarray(ev)) @ q.T
    return 0.5 * (a + a.T), q
