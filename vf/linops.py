"""Shared helpers for C01 / C02 (nifty.cl linear operators).

Everything here is harness-side NumPy; nothing is taken from NIFTy except the
objects under observation.

Real-matrix convention (same as vf/dense.py): a field with n pixels is the
vector (Re x_0..Re x_{n-1}, Im x_0..Im x_{n-1}) in R^{2n}.  MultiFields are the
concatenation of their entries in sorted key order (Re of all entries first,
then Im of all entries).  A (real-)linear map is a real 2m x 2n matrix; its
adjoint w.r.t. Re<.,.> is the transpose, which is the conjugate transpose for
complex-linear maps.

Probing distinguishes the *dtype* of the probe: columns 0..n-1 are obtained
from float64 basis vectors e_k (or complex128 e_k if the operator does not
accept real input in that mode), columns n..2n-1 from complex128 i*e_k.
Columns that cannot be probed (operator accepts only real input) are NaN and
are ignored by all comparisons.
"""
import numpy as np

from vf.clgen import fbytes

TIMES, ADJ, INV, ADJINV = 1, 2, 4, 8
MODES = (1, 2, 4, 8)
MODE_NAME = {1: "TIMES", 2: "ADJOINT_TIMES", 4: "INVERSE_TIMES", 8: "ADJOINT_INVERSE_TIMES"}


def ift():
    import nifty.cl as I
    return I


# ------------------------------------------------------------------ layout ---
def is_multi(dom):
    return isinstance(dom, ift().MultiDomain)


def dom_keys(dom):
    return list(dom.keys())


def dom_size(dom):
    if is_multi(dom):
        return int(sum(dom[k].size for k in dom.keys()))
    return int(dom.size)


def arr_to_cvec(a, dom):
    """ndarray (DomainTuple) or dict of ndarrays (MultiDomain) -> complex vector"""
    if is_multi(dom):
        parts = [np.asarray(a[k]).reshape(-1) for k in dom.keys()]
        if not parts:
            return np.zeros(0, dtype=np.complex128)
        return np.concatenate(parts).astype(np.complex128)
    return np.asarray(a).reshape(-1).astype(np.complex128)


def cvec_to_arr(z, dom, kind):
    """complex vector -> ndarray / dict; kind 'f' -> float64 (imag must be 0), 'c' -> complex128"""
    def conv(v, shp):
        v = np.asarray(v).reshape(shp)
        if kind == "f":
            return np.array(v.real, dtype=np.float64)
        return np.array(v, dtype=np.complex128)
    if is_multi(dom):
        d, o = {}, 0
        for k in dom.keys():
            s = dom[k].size
            d[k] = conv(z[o:o + s], dom[k].shape)
            o += s
        return d
    return conv(z, dom.shape)


def arr_to_field(a, dom):
    I = ift()
    if is_multi(dom):
        return I.MultiField.from_dict({k: I.makeField(dom[k], np.array(a[k])) for k in dom.keys()},
                                      dom)
    return I.makeField(dom, np.array(a))


def field_to_arr(f):
    I = ift()
    if isinstance(f, I.MultiField):
        return {k: np.array(f[k].raw) for k in f.domain.keys()}
    return np.array(f.raw)


def field_to_cvec(f, dom):
    return arr_to_cvec(field_to_arr(f), dom)


def c2r(z):
    z = np.asarray(z)
    return np.concatenate([z.real, z.imag]).astype(np.float64)


def r2c(v):
    n = len(v) // 2
    return v[:n] + 1j * v[n:]


def cmat_to_real(M):
    M = np.asarray(M)
    return np.block([[M.real, -M.imag], [M.imag, M.real]])


def real_embed(M):
    M = np.asarray(M, dtype=np.float64)
    Z = np.zeros_like(M)
    return np.block([[M, Z], [Z, M]])


def is_complex_linear(R, tol=1e-10):
    m, n = R.shape[0] // 2, R.shape[1] // 2
    if not np.all(np.isfinite(R)):
        return False
    a, b, c, d = R[:m, :n], R[:m, n:], R[m:, :n], R[m:, n:]
    sc = max(np.max(np.abs(R), initial=0.0), 1e-300)
    return bool(max(np.max(np.abs(a - d), initial=0.0), np.max(np.abs(b + c), initial=0.0))
                <= tol * sc)


# -------------------------------------------------------------- comparison ---
def mdev(A, B):
    """norm-wise deviation max|A-B| / (max|A|+max|B|) on entries finite in both (nan: ignore).
    returns (dev, ncompared)"""
    A = np.asarray(A, dtype=np.float64)
    B = np.asarray(B, dtype=np.float64)
    if A.shape != B.shape:
        return float("inf"), 0
    mask = ~(np.isnan(A) | np.isnan(B))
    n = int(mask.sum())
    if n == 0:
        return 0.0, 0
    a, b = A[mask], B[mask]
    if not (np.all(np.isfinite(a)) and np.all(np.isfinite(b))):
        return (0.0 if np.array_equal(a, b) else float("inf")), n
    sc = np.max(np.abs(a)) + np.max(np.abs(b))
    d = np.max(np.abs(a - b))
    if d == 0.0:
        return 0.0, n
    return float(d / max(sc, 1e-300)), n


def adev(A, B, scale):
    """max|A-B| / scale on entries that are not NaN in both; returns (dev, ncompared).
    `scale` is the magnitude rounding errors are relative to (>= max|A|, max|B| normally)."""
    A = np.asarray(A, dtype=np.float64)
    B = np.asarray(B, dtype=np.float64)
    if A.shape != B.shape:
        return float("inf"), 0
    mask = ~(np.isnan(A) | np.isnan(B))
    n = int(mask.sum())
    if n == 0:
        return 0.0, 0
    a, b = A[mask], B[mask]
    if not (np.all(np.isfinite(a)) and np.all(np.isfinite(b))):
        return (0.0 if np.array_equal(a, b) else float("inf")), n
    d = float(np.max(np.abs(a - b)))
    if d == 0.0:
        return 0.0, n
    return d / max(float(scale), 1e-300), n


# ----------------------------------------------------------------- probing ---
class Monitor:
    """Wraps op.apply: input-unchanged and output-on-target contracts on every call."""

    def __init__(self, ck, op, name):
        self.ck, self.op, self.name = ck, op, name
        self.reported = set()

    def violation(self, key, what, **w):
        if key in self.reported:
            return
        self.reported.add(key)
        self.ck.violation(key, what, **w)

    def apply(self, x, mode):
        I = ift()
        op = self.op
        before = fbytes(x)
        y = op.apply(x, mode)
        self.ck.hit("input_unchanged_checks")
        if fbytes(x) != before:
            self.violation(f"{self.name}:input-modified:{MODE_NAME[mode]}",
                           f"{self.name}.apply changed its input field in mode {MODE_NAME[mode]}")
        tgt = op.domain if mode in (ADJ, INV) else op.target
        self.ck.hit("target_domain_checks")
        if not isinstance(y, (I.Field, I.MultiField)):
            self.violation(f"{self.name}:output-not-a-field:{MODE_NAME[mode]}",
                           f"{self.name}.apply returned {type(y).__name__} instead of a "
                           f"Field/MultiField in mode {MODE_NAME[mode]}", returned=repr(y)[:200])
            raise OutputError()
        if y.domain != tgt:
            self.violation(f"{self.name}:output-off-target:{MODE_NAME[mode]}",
                           f"{self.name}.apply output lives on a domain different from the "
                           f"declared one in mode {MODE_NAME[mode]}",
                           got=repr(y.domain)[:300], declared=repr(tgt)[:300])
            raise OutputError()
        return y


class OutputError(Exception):
    """output of apply could not be interpreted (already reported)"""


def crash_key(e, prefix="crash"):
    """mechanism key of an unexpected exception, same format as the runner's:
    crash:<ExcType>@<innermost nifty file>:<function>  (or @harness)"""
    import os
    import traceback
    last = None
    for fr in traceback.extract_tb(e.__traceback__):
        if "/nifty/" in fr.filename and "/verif/" not in fr.filename:
            last = fr
    where = f"{os.path.basename(last.filename)}:{last.name}" if last else "harness"
    return f"{prefix}:{type(e).__name__}@{where}"


def short_tb(e, n=1500):
    import traceback
    return "".join(traceback.format_exception(type(e), e, e.__traceback__))[-n:]


def probe(apply_fn, dom_in, dom_out, kinds="fc"):
    """real 2m x 2n matrix of the Field->Field map apply_fn.

    kinds: 'fc' real e_k as float64 + i e_k as complex128; 'f' real only (imag columns NaN);
           'c' both e_k and i e_k as complex128."""
    n, m = dom_size(dom_in), dom_size(dom_out)
    M = np.full((2 * m, 2 * n), np.nan)
    for j in range(n):
        e = np.zeros(n, dtype=np.complex128)
        e[j] = 1.0
        x = arr_to_field(cvec_to_arr(e, dom_in, "f" if "f" in kinds else "c"), dom_in)
        M[:, j] = c2r(field_to_cvec(apply_fn(x), dom_out))
    if "c" in kinds:
        for j in range(n):
            e = np.zeros(n, dtype=np.complex128)
            e[j] = 1.0j
            x = arr_to_field(cvec_to_arr(e, dom_in, "c"), dom_in)
            M[:, n + j] = c2r(field_to_cvec(apply_fn(x), dom_out))
    return M


def probe_ref(fn, dom_in, dom_out, kinds="fc"):
    """same as probe for a NumPy reference fn(ndarray|dict) -> ndarray|dict"""
    n, m = dom_size(dom_in), dom_size(dom_out)
    M = np.full((2 * m, 2 * n), np.nan)
    for j in range(n):
        e = np.zeros(n, dtype=np.complex128)
        e[j] = 1.0
        M[:, j] = c2r(arr_to_cvec(fn(cvec_to_arr(e, dom_in, "f" if "f" in kinds else "c")),
                                  dom_out))
    if "c" in kinds:
        for j in range(n):
            e = np.zeros(n, dtype=np.complex128)
            e[j] = 1.0j
            M[:, n + j] = c2r(arr_to_cvec(fn(cvec_to_arr(e, dom_in, "c")), dom_out))
    return M


def mode_domains(op, mode):
    """(input domain, output domain) of op in mode — by the documented convention,
    not by op._dom/_tgt"""
    if mode in (TIMES, ADJINV):
        return op.domain, op.target
    return op.target, op.domain


def random_cvec(rng, n, kind):
    z = rng.standard_normal(n).astype(np.complex128)
    if kind == "c":
        z = z + 1j * rng.standard_normal(n)
    return z


# -------------------------------------------------- capability calculus ---
def cap_adjoint(c):
    return ((c & 1) << 1) | ((c & 2) >> 1) | ((c & 4) << 1) | ((c & 8) >> 1)


def cap_inverse(c):
    return ((c & 1) << 2) | ((c & 4) >> 2) | ((c & 2) << 2) | ((c & 8) >> 2)


# ----------------------------------------------------- explicit transforms ---
def dft_matrix(n, sign):
    k = np.arange(n)
    return np.exp(sign * 2j * np.pi * np.outer(k, k) / n)


def apply_along_axis_matrix(a, M, axis):
    """contract matrix M (out x in) with axis `axis` of a"""
    r = np.tensordot(M, a, axes=([1], [axis]))
    return np.moveaxis(r, 0, axis)


def explicit_dft(a, axes, sign):
    """unnormalised multi-dimensional DFT  sum_x a[x] exp(sign*2 pi i k.x/N) by explicit matrices"""
    a = np.asarray(a).astype(np.complex128)
    for ax in axes:
        a = apply_along_axis_matrix(a, dft_matrix(a.shape[ax], sign), ax)
    return a


def explicit_hartley(a, axes, canonical=False):
    """multi-dimensional Hartley transform of a *real* array.

    canonical:      sum_x a[x] (cos + sin)(2 pi k.x/N)   = Re F - Im F
    non-canonical:  sum_x a[x] (cos - sin)(2 pi k.x/N)   = Re F + Im F   (NIFTy's default
    config "non_canonical_hartley"), F the unnormalised DFT with kernel exp(-i theta)"""
    f = explicit_dft(np.asarray(a, dtype=np.float64), axes, -1)
    return f.real - f.imag if canonical else f.real + f.imag


def hartley_cplx(a, axes, canonical=False):
    a = np.asarray(a)
    if np.iscomplexobj(a):
        return (explicit_hartley(a.real, axes, canonical)
                + 1j * explicit_hartley(a.imag, axes, canonical))
    return explicit_hartley(a, axes, canonical)


def space_axes(dom, space):
    """numpy axes of sub-space `space` of a DomainTuple (from the sub-space shapes)"""
    o = 0
    for i, d in enumerate(dom):
        nd = len(d.shape)
        if i == space:
            return tuple(range(o, o + nd))
        o += nd
    raise IndexError(space)


def bounded_matrix(rng, n, cplx=False, lo=0.5, hi=2.0):
    """random n x n matrix with singular values in [lo, hi] (cond <= hi/lo)"""
    def orth():
        a = rng.standard_normal((n, n))
        if cplx:
            a = a + 1j * rng.standard_normal((n, n))
        q, _ = np.linalg.qr(a)
        return q
    s = rng.uniform(lo, hi, n)
    return orth() @ np.diag(s) @ orth()
