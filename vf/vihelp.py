"""Shared helpers for C18 / C19 / C20 (variational inference on small Gaussian models).

* generated models  d = s(xi) + n  with a JSON-able descriptor,
* an independent NumPy mirror (closed-form signal, Jacobian, Hamiltonian, gradient, metric),
* builders for the same model as nifty.cl operators and as nifty.re likelihoods,
* scripted white-noise sources that replace NIFTy's RNG entry points
  (``nifty.cl.random.Random.normal`` and ``nifty.re.evi.random_like``).

Nothing in here imports NIFTy at module import time.
"""
import numpy as np



class SkipCase(Exception):
    """oracle precondition not met; converted to ck.skip() by the checks' case() wrappers
    (vf.runner.Skip cannot be used from a check module: the workers run vf.runner as __main__,
    so the class imported from vf.runner is a different object than the one they catch)"""


def run_case(ck, fn, *a):
    try:
        return fn(ck, *a)
    except SkipCase as e:
        ck.skip(str(e) or "skip")


KEYS = ["a", "b", "c"]
NONLINS = ("id", "tanh", "exp")          # exp means exp(0.1*x)
PROD_SCALE = 0.3


# =====================================================================================
# model generator
# =====================================================================================
def _rand_matrix(rng, m, n, kind):
    """kind: full | lowrank | zerorow | scaledid"""
    A = rng.standard_normal((m, n))
    if kind == "lowrank":
        r = max(1, min(m, n) - 1 - int(rng.integers(0, 2)))
        r = min(r, min(m, n))
        if min(m, n) > 1:
            r = min(r, min(m, n) - 1)
        A = rng.standard_normal((m, r)) @ rng.standard_normal((r, n))
    elif kind == "zerorow" and m >= 2:
        k = int(rng.integers(0, m))
        A[k, :] = 0.0
        if m > 2 and rng.integers(0, 2):
            A[(k + 1) % m, :] = 0.0
    elif kind == "scaledid":
        A = np.zeros((m, n))
        c = float(rng.uniform(0.5, 2.0))
        for i in range(min(m, n)):
            A[i, i] = c
    return A


def gen_model(rng, nkeys=None, linear=None, allow_prod=True, lh="gauss", max_latent=6,
              max_data=6, shapes2d=True, mat_kinds=("full", "full", "lowrank", "zerorow"),
              noise_kinds=("diag", "diag", "dense")):
    """Generate a small model.  Returns a JSON-able descriptor ``m``:

    keys, shapes (per key), nd, mats (per key nd x n_k), nl (per key), mode sum|prod,
    noise {kind, var | N}, data, lh gauss|poisson.
    """
    if nkeys is None:
        nkeys = int(rng.integers(1, 4))
    keys = KEYS[:nkeys]
    # latent sizes: total 2..max_latent
    while True:
        sizes = [int(rng.integers(1, 5)) for _ in keys]
        if 2 <= sum(sizes) <= max_latent:
            break
    shapes = []
    for n in sizes:
        if shapes2d and n == 4 and rng.integers(0, 3) == 0:
            shapes.append([2, 2])
        else:
            shapes.append([n])
    nd = int(rng.integers(1, max_data + 1))
    if linear is None:
        linear = bool(rng.integers(0, 2))
    mats, nl, mk = [], [], []
    for n in sizes:
        kind = mat_kinds[int(rng.integers(0, len(mat_kinds)))]
        mk.append(kind)
        mats.append(_rand_matrix(rng, nd, n, kind).tolist())
        nl.append("id" if linear else NONLINS[int(rng.integers(0, len(NONLINS)))])
    mode = "sum"
    if (not linear) and allow_prod and nkeys >= 2 and rng.integers(0, 2) == 0:
        mode = "prod"
    if (not linear) and all(x == "id" for x in nl) and mode == "sum":
        nl[int(rng.integers(0, nkeys))] = "tanh"
    nk = noise_kinds[int(rng.integers(0, len(noise_kinds)))]
    if lh == "poisson":
        noise = dict(kind="none")
        mats = [(0.5 * np.asarray(M)).tolist() for M in mats]
        data = rng.poisson(2.0, nd).astype(float).tolist()
    else:
        if nk == "diag":
            var = np.exp(rng.uniform(np.log(1e-2), np.log(1e2), nd))
            noise = dict(kind="diag", var=var.tolist())
        else:
            Q, _ = np.linalg.qr(rng.standard_normal((nd, nd)))
            ev = np.exp(rng.uniform(np.log(3e-2), np.log(3e1), nd))
            N = (Q * ev) @ Q.T
            N = 0.5 * (N + N.T)
            noise = dict(kind="dense", N=N.tolist())
        data = rng.standard_normal(nd).tolist()
    return dict(keys=keys, shapes=shapes, nd=nd, mats=mats, matkinds=mk, nl=nl, mode=mode,
                noise=noise, data=data, lh=lh, linear=bool(linear))


def model_brief(m):
    """small descriptor for ck.note (the full model is regenerated from the seed)"""
    return dict(keys=m["keys"], shapes=m["shapes"], nd=m["nd"], nl=m["nl"], mode=m["mode"],
                noise=m["noise"]["kind"], mk=m["matkinds"], lh=m["lh"])


def is_rank_deficient(m):
    R = np.hstack([np.asarray(M) for M in m["mats"]])
    return bool(np.linalg.matrix_rank(R) < min(R.shape))


# =====================================================================================
# NumPy mirror (independent oracle)
# =====================================================================================
def _phi(kind, x):
    if kind == "id":
        return x, np.ones_like(x)
    if kind == "tanh":
        t = np.tanh(x)
        return t, 1.0 - t * t
    if kind == "exp":
        e = np.exp(0.1 * x)
        return e, 0.1 * e
    raise ValueError(kind)


class Mirror:
    """closed forms for the generated model; latent vector = concatenation over keys
    (alphabetical) of the C-order flattened leaves"""

    def __init__(self, m):
        self.m = m
        self.keys = list(m["keys"])
        self.shapes = [tuple(s) for s in m["shapes"]]
        self.sizes = [int(np.prod(s)) for s in self.shapes]
        self.off = np.concatenate([[0], np.cumsum(self.sizes)]).astype(int)
        self.n = int(self.off[-1])
        self.nd = int(m["nd"])
        self.R = [np.asarray(M, dtype=float).reshape(self.nd, sz)
                  for M, sz in zip(m["mats"], self.sizes)]
        self.d = np.asarray(m["data"], dtype=float)
        self.lh = m["lh"]
        if self.lh == "gauss":
            if m["noise"]["kind"] == "diag":
                self.N = np.diag(np.asarray(m["noise"]["var"], dtype=float))
            else:
                self.N = np.asarray(m["noise"]["N"], dtype=float)
            self.Ninv = np.linalg.inv(self.N)
            w, V = np.linalg.eigh(self.Ninv)
            self.Ninv_sqrt = (V * np.sqrt(w)) @ V.T      # symmetric square root of N^-1
            self.cond_N = float(w.max() / w.min())

    # ---- index helpers
    def sl(self, key):
        i = self.keys.index(key)
        return slice(int(self.off[i]), int(self.off[i + 1]))

    def idx(self, keys):
        """flat indices belonging to the given keys (in model order)"""
        out = []
        for k in self.keys:
            if k in keys:
                s = self.sl(k)
                out.extend(range(s.start, s.stop))
        return np.asarray(out, dtype=int)

    def split(self, x):
        return {k: np.asarray(x[self.sl(k)]).reshape(shp)
                for k, shp in zip(self.keys, self.shapes)}

    def join(self, dct):
        return np.concatenate([np.asarray(dct[k], dtype=float).reshape(-1) for k in self.keys])

    # ---- model
    def signal_jac(self, x):
        x = np.asarray(x, dtype=float)
        terms, jacs = [], []
        for i, k in enumerate(self.keys):
            f, df = _phi(self.m["nl"][i], x[self.sl(k)])
            terms.append(self.R[i] @ f)
            jacs.append(self.R[i] * df[None, :])
        if self.m["mode"] == "sum":
            s = sum(terms)
            J = np.hstack(jacs)
        else:
            u = terms[0]
            v = np.exp(PROD_SCALE * terms[1])
            s = u * v
            J0 = v[:, None] * jacs[0]
            J1 = (u * v * PROD_SCALE)[:, None] * jacs[1]
            rest = jacs[2:]
            for t in terms[2:]:
                s = s + t
            J = np.hstack([J0, J1] + rest)
        return s, J

    def signal(self, x):
        return self.signal_jac(x)[0]

    def jac(self, x):
        return self.signal_jac(x)[1]

    def H(self, x):
        x = np.asarray(x, dtype=float)
        s = self.signal(x)
        if self.lh == "gauss":
            r = self.d - s
            return 0.5 * r @ self.Ninv @ r + 0.5 * x @ x
        lam = np.exp(s)
        return float(np.sum(lam) - self.d @ s) + 0.5 * x @ x

    def gradH(self, x):
        x = np.asarray(x, dtype=float)
        s, J = self.signal_jac(x)
        if self.lh == "gauss":
            return -J.T @ self.Ninv @ (self.d - s) + x
        lam = np.exp(s)
        return J.T @ (lam - self.d) + x

    def lh_metric(self, x):
        s, J = self.signal_jac(x)
        if self.lh == "gauss":
            return J.T @ self.Ninv @ J
        lam = np.exp(s)
        return J.T @ (lam[:, None] * J)

    def metric(self, x):
        """Fisher metric of the likelihood + identity (standard prior)"""
        return self.lh_metric(x) + np.eye(self.n)

    def metric_sub(self, x, liquid_idx):
        M = self.lh_metric(x)
        ii = np.asarray(liquid_idx, dtype=int)
        return M[np.ix_(ii, ii)] + np.eye(len(ii))

    # ---- linear-Gaussian closed forms (only valid for linear models)
    def posterior(self):
        assert self.m["linear"] and self.lh == "gauss" and self.m["mode"] == "sum"
        R = np.hstack(self.R)
        Minv = np.eye(self.n) + R.T @ self.Ninv @ R
        D = np.linalg.inv(Minv)
        mean = D @ (R.T @ self.Ninv @ self.d)
        mean_d = R.T @ np.linalg.solve(R @ R.T + self.N, self.d)
        return R, D, mean, mean_d


# =====================================================================================
# nifty.cl builder
# =====================================================================================
def _dense_class(ift):
    cls = getattr(_dense_class, "_cls", None)
    if cls is not None:
        return cls

    class HarnessDense(ift.LinearOperator):
        """rectangular dense matrix (harness-side, trusted): flat(target) = mat @ flat(domain)"""

        def __init__(self, dom, tgt, mat):
            self._domain = ift.makeDomain(dom)
            self._target = ift.makeDomain(tgt)
            self._capability = self.TIMES | self.ADJOINT_TIMES
            self._mat = np.array(mat, dtype=float)

        def apply(self, x, mode):
            self._check_input(x, mode)
            v = np.array(x.raw, dtype=float).reshape(-1)
            if mode == self.TIMES:
                return ift.makeField(self._target, (self._mat @ v).reshape(self._target.shape))
            return ift.makeField(self._domain, (self._mat.T @ v).reshape(self._domain.shape))

    _dense_class._cls = HarnessDense
    return HarnessDense


def build_cl(ift, m, rg=False):
    """returns dict(lh=likelihood energy, dom=MultiDomain, ddom=data domain, signal=op)"""
    mir = Mirror(m)
    Dense = _dense_class(ift)
    ddom = ift.UnstructuredDomain(mir.nd)
    ops = []
    doms = {}
    for i, k in enumerate(mir.keys):
        shp = mir.shapes[i]
        dom = ift.RGSpace(shp) if (rg and i == 0) else ift.UnstructuredDomain(shp)
        doms[k] = ift.makeDomain(dom)
        fa = ift.FieldAdapter(doms[k], k)
        kind = m["nl"][i]
        if kind == "id":
            f = fa
        elif kind == "tanh":
            f = fa.ptw("tanh")
        else:
            f = fa.scale(0.1).ptw("exp")
        ops.append(Dense(doms[k], ddom, mir.R[i]) @ f)
    if m["mode"] == "sum":
        sig = ops[0]
        for o in ops[1:]:
            sig = sig + o
    else:
        sig = ops[0] * ops[1].scale(PROD_SCALE).ptw("exp")
        for o in ops[2:]:
            sig = sig + o
    d = ift.makeField(ddom, mir.d)
    if m["lh"] == "gauss":
        if m["noise"]["kind"] == "diag":
            icov = ift.DiagonalOperator(ift.makeField(ddom, 1.0 / np.diag(mir.N)),
                                        sampling_dtype=float)
        else:
            icov = ift.SandwichOperator.make(Dense(ddom, ddom, mir.Ninv_sqrt),
                                             sampling_dtype=float)
        lh = ift.GaussianEnergy(data=d, inverse_covariance=icov) @ sig
    else:
        lh = ift.PoissonianEnergy(ift.makeField(ddom, mir.d.astype(np.int64))) @ sig.ptw("exp")
    return dict(lh=lh, dom=lh.domain, ddom=ddom, signal=sig, mirror=mir, icov=None)


def cl_field(ift, dom, mir, x, keys=None):
    """flat latent vector -> MultiField on (a sub-domain of) dom"""
    dct = mir.split(np.asarray(x, dtype=float))
    keys = mir.keys if keys is None else [k for k in mir.keys if k in keys]
    return ift.MultiField.from_dict({k: ift.makeField(dom[k], np.array(dct[k])) for k in keys})


def cl_vec(mir, f, keys=None, fill=None):
    """MultiField -> flat vector over `keys` (model order); missing keys -> fill or error"""
    keys = mir.keys if keys is None else [k for k in mir.keys if k in keys]
    out = []
    for k in keys:
        if k in f.keys():
            out.append(np.array(f[k].raw, dtype=float).reshape(-1))
        elif fill is not None:
            out.append(np.full(mir.sizes[mir.keys.index(k)], float(fill)))
        else:
            raise KeyError(k)
    return np.concatenate(out) if out else np.zeros(0)


# =====================================================================================
# scripted white noise, nifty.cl
# =====================================================================================
class ClScript:
    """Replacement for ``nifty.cl.random.Random.normal``.

    modes: 'off' (real RNG), 'zero' (return mean, record requests), 'play' (mean + std * next
    numbers of the script; zeros after its end).  ``passthrough`` > 0 forces the real RNG
    (used while NIFTy estimates a preconditioner by probing)."""

    def __init__(self, ift):
        self.ift = ift
        self.orig = ift.random.Random.__dict__["normal"].__func__
        self.mode = "off"
        self.buf = np.zeros(0)
        self.pos = 0
        self.calls = []        # (size, dtype is complex) of scripted requests
        self.passthrough = 0
        self.n_scripted = 0
        self.n_real = 0

    def install(self):
        me = self

        def normal(dtype, shape, mean=0., std=1.):
            if me.mode == "off" or me.passthrough > 0:
                me.n_real += 1
                return me.orig(dtype, shape, mean, std)
            if np.issubdtype(dtype, np.complexfloating):
                raise RuntimeError("harness: complex scripted noise not supported")
            n = int(np.prod(shape))
            me.calls.append(n)
            me.n_scripted += 1
            if me.mode == "zero":
                w = np.zeros(n)
            else:
                w = np.zeros(n)
                chunk = me.buf[me.pos:me.pos + n]
                w[:len(chunk)] = chunk
                me.pos += n
            return (mean + std * w.reshape(shape)).astype(dtype, copy=False)

        self.ift.random.Random.normal = staticmethod(normal)
        # preconditioner probing keeps using the real generator
        from nifty.cl.minimization import kl_energies
        if not getattr(kl_energies.approximation2endo, "_vf_wrapped", False):
            inner = kl_energies.approximation2endo

            def approximation2endo(op, nsamples):
                me.passthrough += 1
                try:
                    return inner(op, nsamples)
                finally:
                    me.passthrough -= 1
            approximation2endo._vf_wrapped = True
            kl_energies.approximation2endo = approximation2endo

    def record(self):
        self.mode, self.calls, self.pos = "zero", [], 0

    def play(self, buf):
        self.mode, self.calls, self.pos = "play", [], 0
        self.buf = np.asarray(buf, dtype=float)

    def off(self):
        self.mode = "off"


def get_clscript(ck, ift):
    sc = ck.state.get("clscript")
    if sc is None:
        sc = ClScript(ift)
        sc.install()
        ck.state["clscript"] = sc
    return sc


def cl_residual_map(ift, sc, make_samples, W, n_per_call, extract):
    """Observe the linear map white-noise -> residual of a classic sampler.

    make_samples(): runs the NIFTy code that draws `n_per_call` independent samples
    (each consuming W scripted numbers, in order) and returns a list of per-draw results
    (anything); extract(result, j) -> flat residual vector of independent draw j.
    Returns L (n x W), offset (n,), and the list of raw results."""
    cols = {}
    raws = []
    k = 0
    offset = None
    # first call: all-zero script -> offset
    while k < W or offset is None:
        buf = np.zeros(W * n_per_call)
        todo = []
        for j in range(n_per_call):
            if offset is None and j == 0:
                todo.append(None)        # zero noise draw
                continue
            if k < W:
                buf[j * W + k] = 1.0
                todo.append(k)
                k += 1
            else:
                todo.append(None)
        sc.play(buf)
        res = make_samples()
        consumed = sc.pos
        sc.off()
        if consumed != W * n_per_call:
            raise RuntimeError(f"harness: scripted numbers consumed {consumed} != {W}*{n_per_call}")
        raws.append((todo, res))
        for j, kk in enumerate(todo):
            v = extract(res, j)
            if kk is None:
                if offset is None:
                    offset = v
            else:
                cols[kk] = v
    L = np.stack([cols[i] for i in range(W)], axis=1)
    return L, offset, raws


# =====================================================================================
# nifty.re builder and scripted noise
# =====================================================================================
def jax_budget_guard(ck, forced=False, need_s=30.0):
    """JAX cases are compile-dominated (seconds, much more on a loaded machine): do not start one
    when little budget is left — the runner only checks the deadline between cases."""
    if not forced and ck.time_left() < need_s:
        raise SkipCase(f"less than {need_s:.0f} s of budget left: JAX case not started")


def get_jax(ck):
    st = ck.state
    if "jft" not in st:
        import jax
        import jax.numpy as jnp
        import nifty.re as jft
        from nifty.re import evi
        jax.config.update("jax_enable_x64", True)
        st["jax"], st["jnp"], st["jft"], st["evi"] = jax, jnp, jft, evi
        st["rescript"] = ReScript(jax, jnp, evi)
        st["rescript"].install()
        import logging
        logging.getLogger("nifty.re").setLevel(logging.CRITICAL)
        try:
            from nifty.re.logger import logger
            logger.setLevel(logging.CRITICAL)
        except Exception:
            pass
    return st["jax"], st["jnp"], st["jft"], st["rescript"]


def build_re(jax, jnp, jft, m, vector=True):
    """returns dict(lh=LikelihoodWithModel, fwd=callable, mirror)"""
    mir = Mirror(m)
    Rs = [jnp.asarray(R) for R in mir.R]
    nls = list(m["nl"])
    keys = list(mir.keys)
    mode = m["mode"]

    def phi(kind, x):
        if kind == "id":
            return x
        if kind == "tanh":
            return jnp.tanh(x)
        return jnp.exp(0.1 * x)

    def fwd(x):
        terms = [Rs[i] @ phi(nls[i], x[k].reshape(-1)) for i, k in enumerate(keys)]
        if mode == "sum":
            s = terms[0]
            for t in terms[1:]:
                s = s + t
            return s
        s = terms[0] * jnp.exp(PROD_SCALE * terms[1])
        for t in terms[2:]:
            s = s + t
        return s

    dom = {k: jft.ShapeWithDtype(shp, jnp.float64) for k, shp in zip(keys, mir.shapes)}
    if vector:
        dom = jft.Vector(dom)
    d = jnp.asarray(mir.d)
    if m["lh"] == "gauss":
        if m["noise"]["kind"] == "diag":
            iv = jnp.asarray(1.0 / np.diag(mir.N))
            siv = jnp.sqrt(iv)
            base = jft.Gaussian(d, noise_cov_inv=lambda x: iv * x, noise_std_inv=lambda x: siv * x)
        else:
            Ni = jnp.asarray(mir.Ninv)
            Ns = jnp.asarray(mir.Ninv_sqrt)
            base = jft.Gaussian(d, noise_cov_inv=lambda x: Ni @ x, noise_std_inv=lambda x: Ns @ x)
        lh = base.amend(fwd, domain=dom)
    else:
        base = jft.Poissonian(jnp.asarray(mir.d.astype(np.int64)))
        lh = base.amend(lambda x: jnp.exp(fwd(x)), domain=dom)
    return dict(lh=lh, fwd=fwd, mirror=mir, dom=dom)


def re_pos(jft, jnp, mir, x, vector=True):
    dct = {k: jnp.asarray(v) for k, v in mir.split(np.asarray(x, dtype=float)).items()}
    return jft.Vector(dct) if vector else dct


def re_tree(x):
    return x.tree if hasattr(x, "tree") else x


def re_vec(mir, x, batch=None):
    """pytree (dict / Vector) -> flat numpy vector in model order; leaves of point-estimated
    keys may be broadcastable (NIFTy fills them with shape-(1,)*ndim zeros).
    With batch=n the leaves carry a leading sample axis and an (n, N) array is returned."""
    t = re_tree(x)
    out = []
    for k, shp in zip(mir.keys, mir.shapes):
        a = np.asarray(t[k])
        if batch is None:
            out.append(np.broadcast_to(a, shp).reshape(-1))
        else:
            out.append(np.broadcast_to(a, (batch,) + shp).reshape(batch, -1))
    return np.concatenate(out, axis=-1)


class ReScript:
    """Replacement for ``nifty.re.evi.random_like`` (the only RNG entry point used by
    draw_linear_residual / sample_likelihood): a pure function key -> pytree defined by a
    table {key data: flat vector}.  Works under jit / vmap / lax.map because the look-up is
    written with jnp operations.  Keys that are not in the table give NaN (loud)."""

    def __init__(self, jax, jnp, evi):
        self.jax, self.jnp, self.evi = jax, jnp, evi
        self.orig = evi.random_like
        self.active = False
        self.K = np.zeros((1, 2), np.uint32)
        self.V = np.zeros((1, 1))
        self.ncalls = 0

    def install(self):
        me = self
        jax, jnp = self.jax, self.jnp

        def random_like(key, primals, rng=None):
            if not me.active:
                return me.orig(key, primals) if rng is None else me.orig(key, primals, rng)
            me.ncalls += 1
            kd = key
            if jnp.issubdtype(key.dtype, jax.dtypes.prng_key):
                kd = jax.random.key_data(key)
            leaves, td = jax.tree_util.tree_flatten(primals)
            sizes = [int(np.prod(l.shape)) for l in leaves]
            n = sum(sizes)
            K = jnp.asarray(me.K)
            V = jnp.asarray(me.V)
            if V.shape[1] < n:
                V = jnp.pad(V, ((0, 0), (0, n - V.shape[1])))
            match = jnp.all(K == kd[None, :], axis=1)
            flat = jnp.sum(jnp.where(match[:, None], V[:, :n], 0.0), axis=0)
            flat = jnp.where(jnp.any(match), flat, jnp.nan)
            out, o = [], 0
            for l, s in zip(leaves, sizes):
                out.append(flat[o:o + s].reshape(l.shape).astype(l.dtype))
                o += s
            return jax.tree_util.tree_unflatten(td, out)

        self.evi.random_like = random_like

    def set_table(self, table):
        """table: list of (key (uint32[2]), flat vector)"""
        mlen = max(len(v) for _, v in table)
        self.K = np.array([np.asarray(k, dtype=np.uint32) for k, _ in table], dtype=np.uint32)
        self.V = np.array([np.concatenate([np.asarray(v, float), np.zeros(mlen - len(v))])
                           for _, v in table])
        self.active = True

    def off(self):
        self.active = False


def re_basis_table(jax, keys, nd, nliq, white=None):
    """Script for draw_linear_residual(key=keys[j]): its two sub-keys
    (likelihood white noise of size nd, prior white noise of size nliq) get the j-th column of
    `white` ((nd+nliq) x len(keys)); default: basis vectors, surplus keys get zeros."""
    W = nd + nliq
    keys = np.asarray(keys)
    if white is None:
        white = np.zeros((W, len(keys)))
        for j in range(min(W, len(keys))):
            white[j, j] = 1.0
    table = []
    sub = np.asarray(_vsplit2(jax)(jax.numpy.asarray(keys)))      # (len(keys), 2, 2)
    for j in range(len(keys)):
        table.append((sub[j, 0], white[:nd, j]))
        table.append((sub[j, 1], white[nd:, j]))
    return table, white


def _vsplit2(jax):
    f = getattr(_vsplit2, "_f", None)
    if f is None:
        f = jax.jit(jax.vmap(lambda k: jax.random.split(k, 2)))
        _vsplit2._f = f
    return f


# =====================================================================================
# comparisons
# =====================================================================================
def relerr(a, b):
    a = np.asarray(a, dtype=float)
    b = np.asarray(b, dtype=float)
    if a.shape != b.shape:
        return float("inf")
    if a.size == 0:
        return 0.0
    if not (np.all(np.isfinite(a)) and np.all(np.isfinite(b))):
        return float("inf")
    sc = max(np.max(np.abs(a)), np.max(np.abs(b)), 1e-300)
    return float(np.max(np.abs(a - b)) / sc)


def small(x, digits=6):
    """compact JSON-able rendering of an array for witnesses"""
    a = np.asarray(x, dtype=float)
    if a.size > 40:
        a = a.reshape(-1)[:40]
    return np.round(a, digits).tolist()
