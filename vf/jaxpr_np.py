"""Evaluate a jaxpr with NumPy.

Why: jax's forward-mode autodiff (``jax.jvp`` / ``jax.jacfwd``) of the mirror
is the Jacobian oracle.  Executing the differentiated program through XLA costs
one compilation per program (0.2-1 s for the tiny programs used here), which
does not fit the quick tier.  Tracing is cheap (~10 ms), so the traced jaxpr of
``jvp(mirror)`` — jax's derivative rules applied by jax — is evaluated by this
small NumPy interpreter instead.  An unknown primitive raises
``Unsupported``; callers then fall back to ``jax.jit``.
"""
import numpy as np


class Unsupported(Exception):
    pass


def _broadcast_in_dim(x, shape, broadcast_dimensions, **kw):
    x = np.asarray(x)
    tmp = [1]*len(shape)
    for i, d in enumerate(broadcast_dimensions):
        tmp[d] = x.shape[i]
    return np.broadcast_to(x.reshape(tmp), shape)


def _dot_general(a, b, dimension_numbers, **kw):
    (lc, rc), (lb, rb) = dimension_numbers
    a, b = np.asarray(a), np.asarray(b)
    letters = iter("abcdefghijklmnopqrstuvwxyz")
    sa, sb = [None]*a.ndim, [None]*b.ndim
    batch = []
    for i, j in zip(lb, rb):
        c = next(letters)
        sa[i] = sb[j] = c
        batch.append(c)
    for i, j in zip(lc, rc):
        c = next(letters)
        sa[i] = sb[j] = c
    fa, fb = [], []
    for i in range(a.ndim):
        if sa[i] is None:
            sa[i] = next(letters)
            fa.append(sa[i])
    for j in range(b.ndim):
        if sb[j] is None:
            sb[j] = next(letters)
            fb.append(sb[j])
    return np.einsum("".join(sa) + "," + "".join(sb) + "->" + "".join(batch + fa + fb), a, b)


def _select_n(pred, *cases):
    pred = np.asarray(pred)
    if pred.dtype == np.bool_:
        if len(cases) != 2:
            raise Unsupported("select_n arity")
        return np.where(pred, cases[1], cases[0])
    return np.choose(pred, cases)


def _slice(x, start_indices, limit_indices, strides=None, **kw):
    strides = strides or (1,)*len(start_indices)
    return np.asarray(x)[tuple(slice(s, l, st) for s, l, st in
                               zip(start_indices, limit_indices, strides))]


def _reshape(x, new_sizes, dimensions=None, **kw):
    if dimensions is not None:
        raise Unsupported("reshape dimensions")
    return np.reshape(x, new_sizes)


def _convert(x, new_dtype, **kw):
    x = np.asarray(x)
    if np.iscomplexobj(x) and not np.issubdtype(new_dtype, np.complexfloating):
        x = x.real
    return x.astype(new_dtype)


def _iota(dtype, shape, dimension, **kw):
    r = np.arange(shape[dimension], dtype=dtype)
    tmp = [1]*len(shape)
    tmp[dimension] = shape[dimension]
    return np.broadcast_to(r.reshape(tmp), shape)


def _cumsum(x, axis, reverse=False, **kw):
    x = np.asarray(x)
    if reverse:
        return np.flip(np.cumsum(np.flip(x, axis), axis=axis), axis)
    return np.cumsum(x, axis=axis)


def _sign(x):
    x = np.asarray(x)
    if np.iscomplexobj(x):
        a = np.abs(x)
        return np.where(a == 0, 0, x/np.where(a == 0, 1, a))
    return np.sign(x)


def _logistic(x):
    return 1./(1. + np.exp(-np.asarray(x)))


def _concatenate(*xs, dimension, **kw):
    return np.concatenate([np.asarray(x) for x in xs], axis=dimension)


def _transpose(x, permutation, **kw):
    return np.transpose(x, permutation)


def _squeeze(x, dimensions, **kw):
    return np.squeeze(x, axis=tuple(dimensions))


def _reduce(fn):
    def r(x, axes, **kw):
        return fn(np.asarray(x), axis=tuple(axes))
    return r


def _pow(x, y):
    return np.power(x, y)


def _integer_pow(x, y, **kw):
    x = np.asarray(x)
    if y >= 0:
        return x**int(y)
    return 1./(x**int(-y))


def _div(x, y):
    x, y = np.asarray(x), np.asarray(y)
    if np.issubdtype(x.dtype, np.integer) and np.issubdtype(y.dtype, np.integer):
        return (np.sign(x)*np.sign(y))*(np.abs(x)//np.abs(y))     # lax.div truncates
    return x/y


def _roll_like_dynamic(*a, **k):
    raise Unsupported("dynamic slicing")


SIMPLE = {
    "add": np.add, "add_any": np.add, "sub": np.subtract, "mul": np.multiply, "div": _div,
    "neg": np.negative, "sin": np.sin, "cos": np.cos, "tan": np.tan, "exp": np.exp,
    "log": np.log, "log1p": np.log1p, "expm1": np.expm1, "tanh": np.tanh, "sinh": np.sinh,
    "cosh": np.cosh, "atan": np.arctan, "sqrt": np.sqrt, "rsqrt": lambda x: 1./np.sqrt(x),
    "abs": np.abs, "sign": _sign, "max": np.maximum, "min": np.minimum, "pow": _pow,
    "real": np.real, "imag": np.imag, "conj": lambda x, **kw: np.conj(x),
    "complex": lambda a, b: np.asarray(a) + 1j*np.asarray(b),
    "eq": np.equal, "ne": np.not_equal, "ge": np.greater_equal, "gt": np.greater,
    "le": np.less_equal, "lt": np.less, "and": np.logical_and, "or": np.logical_or,
    "not": np.logical_not, "square": np.square, "logistic": _logistic,
    "stop_gradient": lambda x: x, "copy": lambda x: np.array(x), "copy_p": lambda x: np.array(x),
    "exp2": np.exp2, "is_finite": np.isfinite, "floor": np.floor, "ceil": np.ceil,
    "asin": np.arcsin, "acos": np.arccos, "asinh": np.arcsinh, "acosh": np.arccosh,
    "atanh": np.arctanh, "atan2": np.arctan2,
}
PARAM = {
    "broadcast_in_dim": _broadcast_in_dim, "dot_general": _dot_general, "slice": _slice,
    "reshape": _reshape, "convert_element_type": _convert, "cumsum": _cumsum,
    "transpose": _transpose, "squeeze": _squeeze, "integer_pow": _integer_pow,
    "reduce_sum": _reduce(np.sum), "reduce_max": _reduce(np.max), "reduce_min": _reduce(np.min),
    "reduce_prod": _reduce(np.prod),
}


def eval_jaxpr(jaxpr, consts, *args):
    """jaxpr: jax.core.Jaxpr; returns list of numpy outputs"""
    from jax.extend import core as jcore          # Literal lives here in recent jax
    Literal = getattr(jcore, "Literal", None)
    if Literal is None:
        from jax import core as jcore2
        Literal = jcore2.Literal
    env = {}

    def read(v):
        if isinstance(v, Literal):
            return np.asarray(v.val)
        return env[v]

    for v, c in zip(jaxpr.constvars, consts):
        env[v] = np.asarray(c)
    for v, a in zip(jaxpr.invars, args):
        env[v] = np.asarray(a)
    for e in jaxpr.eqns:
        name = e.primitive.name
        ins = [read(v) for v in e.invars]
        if name in SIMPLE:
            out = SIMPLE[name](*ins)
        elif name in PARAM:
            out = PARAM[name](*ins, **e.params)
        elif name == "select_n":
            out = _select_n(*ins)
        elif name == "concatenate":
            out = _concatenate(*ins, **e.params)
        elif name == "iota":
            out = _iota(**e.params)
        elif name in ("pjit", "jit", "closed_call", "core_call"):
            cj = e.params.get("jaxpr") or e.params.get("call_jaxpr")
            out = eval_jaxpr(cj.jaxpr, cj.consts, *ins) if hasattr(cj, "jaxpr") \
                else eval_jaxpr(cj, [], *ins)
        elif name in ("custom_jvp_call", "custom_vjp_call"):
            cj = e.params.get("call_jaxpr") or e.params.get("fun_jaxpr")
            out = eval_jaxpr(cj.jaxpr, cj.consts, *ins)
        else:
            raise Unsupported(name)
        if e.primitive.multiple_results:
            for v, o in zip(e.outvars, out):
                env[v] = o
        else:
            av = e.outvars[0].aval
            out = np.asarray(out)
            if hasattr(av, "dtype") and out.dtype != av.dtype:
                if np.iscomplexobj(out) and not np.issubdtype(av.dtype, np.complexfloating):
                    out = out.real
                out = out.astype(av.dtype)
            if hasattr(av, "shape") and out.shape != tuple(av.shape):
                out = np.broadcast_to(out, av.shape)
            env[e.outvars[0]] = out
    return [read(v) for v in jaxpr.outvars]
