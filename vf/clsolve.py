"""Shared helpers for the nifty.cl solver / sampling checks (C11, C13, C14, C16).

* dense HPD generators with prescribed spectra,
* a harness-defined dense ``LinearOperator`` (public operator interface) that logs the
  modes it is applied in,
* run-time monitors that wrap live NIFTy classes (IterationController.start/check,
  LineSearch.perform_line_search/_zoom, DescentMinimizer.get_descent_direction/reset),
* an independent re-implementation of the documented controller criteria that works on
  *intervals* (dense value +- observed deviation) so that ties are visible,
* a scripted replacement for ``nifty.cl.random.Random.normal``.

Nothing in here edits /repo; everything is attached from the harness at run time.
"""
import functools
import numpy as np

CONVERGED, CONTINUE, ERROR = 0, 1, 2


# ------------------------------------------------------------------ matrices ---
def rand_unitary(rng, n, cplx):
    z = rng.standard_normal((n, n))
    if cplx:
        z = z + 1j * rng.standard_normal((n, n))
    q, r = np.linalg.qr(z)
    d = np.diagonal(r)
    return q * (d / np.abs(d))


def gen_spectrum(rng, n, cond, kind):
    """eigenvalues in [1, cond] (both ends attained for n >= 2)"""
    if n == 1 or cond == 1:
        return np.ones(n)
    if kind == "geom":
        ev = cond ** (np.arange(n) / (n - 1))
    elif kind == "unif":
        ev = np.concatenate([[1.0, cond], rng.uniform(1.0, cond, n - 2)])[:n]
    elif kind == "logunif":
        ev = np.concatenate([[1.0, cond], cond ** rng.uniform(0, 1, n - 2)])[:n]
    elif kind.startswith("clust"):
        m = int(kind[5:])
        m = max(2, min(m, n))
        base = cond ** (np.arange(m) / (m - 1))
        idx = np.concatenate([np.arange(m), rng.integers(0, m, n - m)])
        ev = base[idx]
    else:
        raise ValueError(kind)
    return np.sort(np.asarray(ev, dtype=np.float64))


def gen_hpd(rng, n, cplx, cond=10.0, kind="logunif", scale=1.0):
    ev = gen_spectrum(rng, n, cond, kind) * scale
    U = rand_unitary(rng, n, cplx)
    A = (U * ev) @ U.conj().T
    A = 0.5 * (A + A.conj().T)
    return A, ev


def gen_vec(rng, n, cplx, scale=1.0):
    v = rng.standard_normal(n)
    if cplx:
        v = v + 1j * rng.standard_normal(n)
    return v * scale


def nrm(v):
    return float(np.sqrt(np.sum(np.abs(np.asarray(v)) ** 2)))


# -------------------------------------------------------- field <-> vectors ---
def fvec(f):
    """flat numpy vector of a Field / MultiField (keys in domain order), native dtype"""
    import nifty.cl as ift
    if isinstance(f, ift.MultiField):
        parts = [np.asarray(f[k].asnumpy()).reshape(-1) for k in f.domain.keys()]
        return np.concatenate(parts) if parts else np.zeros(0)
    return np.array(f.asnumpy()).reshape(-1)


def mkfield(dom, v):
    import nifty.cl as ift
    v = np.asarray(v)
    if isinstance(dom, ift.MultiDomain):
        d, o = {}, 0
        for k in dom.keys():
            s = dom[k].size
            d[k] = ift.makeField(dom[k], v[o:o + s].reshape(dom[k].shape).copy())
            o += s
        return ift.MultiField.from_dict(d, dom)
    return ift.makeField(dom, v.reshape(dom.shape).copy())


# ------------------------------------------------------------- dense operator ---
_DENSE_CLS = {}


def dense_op_class():
    """Harness-defined EndomorphicOperator given by a dense matrix acting on the flattened
    field.  ``caps``: 'ta' (TIMES, ADJOINT_TIMES) or 'all' (inverse modes through numpy's
    solve).  Every application appends its mode to ``log`` (if given)."""
    if "c" in _DENSE_CLS:
        return _DENSE_CLS["c"]
    import nifty.cl as ift

    class DenseOp(ift.EndomorphicOperator):
        def __init__(self, domain, matrix, caps="ta", log=None, sampling_dtype=None):
            self._domain = ift.DomainTuple.make(domain)
            self._m = np.array(matrix)
            n = self._domain.size
            if self._m.shape != (n, n):
                raise ValueError("shape mismatch")
            self._capability = (self.TIMES | self.ADJOINT_TIMES) if caps == "ta" else self._all_ops
            self._log = log
            if caps != "ta":
                self._minv = np.linalg.inv(self._m)
            if sampling_dtype is not None:
                self._dtype = sampling_dtype

        def apply(self, x, mode):
            self._check_input(x, mode)
            if self._log is not None:
                self._log.append(int(mode))
            v = np.asarray(x.asnumpy()).reshape(-1)
            if mode == self.TIMES:
                r = self._m @ v
            elif mode == self.ADJOINT_TIMES:
                r = self._m.conj().T @ v
            elif mode == self.INVERSE_TIMES:
                r = self._minv @ v
            else:
                r = self._minv.conj().T @ v
            return ift.makeField(self._domain, r.reshape(self._domain.shape))

        def __repr__(self):
            return f"DenseOp{self._m.shape}"

    _DENSE_CLS["c"] = DenseOp
    return DenseOp


def dense_lin_class():
    """Harness-defined rectangular LinearOperator (TIMES / ADJOINT_TIMES) from a dense matrix."""
    if "l" in _DENSE_CLS:
        return _DENSE_CLS["l"]
    import nifty.cl as ift

    class DenseLin(ift.LinearOperator):
        def __init__(self, domain, target, matrix):
            self._domain = ift.DomainTuple.make(domain)
            self._target = ift.DomainTuple.make(target)
            self._m = np.array(matrix)
            if self._m.shape != (self._target.size, self._domain.size):
                raise ValueError("shape mismatch")
            self._capability = self.TIMES | self.ADJOINT_TIMES

        def apply(self, x, mode):
            self._check_input(x, mode)
            v = np.asarray(x.asnumpy()).reshape(-1)
            if mode == self.TIMES:
                return ift.makeField(self._target, (self._m @ v).reshape(self._target.shape))
            return ift.makeField(self._domain, (self._m.conj().T @ v).reshape(self._domain.shape))

        def __repr__(self):
            return f"DenseLin{self._m.shape}"

    _DENSE_CLS["l"] = DenseLin
    return DenseLin


# ------------------------------------------------------------------ monitors ---
class Recorder:
    """Event sink for the class-level monitors (one per worker)."""

    def __init__(self):
        self.active = False
        self.events = []
        self._depth = {}

    def begin(self):
        self.events = []
        self._depth = {}
        self.active = True

    def end(self):
        self.active = False
        ev, self.events = self.events, []
        return ev


def _all_subclasses(cls):
    out, todo = [], [cls]
    while todo:
        c = todo.pop()
        for s in c.__subclasses__():
            if s not in out:
                out.append(s)
                todo.append(s)
    return out


def attach_controller_monitor(rec):
    """wrap ``start`` and ``check`` of every IterationController class.  Only the outermost
    call per controller object is recorded (``start`` calls ``check`` internally)."""
    import nifty.cl as ift
    base = ift.IterationController
    if getattr(base, "_vf_wrapped", False):
        return
    for cls in _all_subclasses(base):
        for name in ("start", "check"):
            if name not in cls.__dict__:
                continue
            orig = cls.__dict__[name]

            def make(orig, name):
                @functools.wraps(orig)
                def wrapper(self, energy, *a, **kw):
                    if not rec.active:
                        return orig(self, energy, *a, **kw)
                    key = id(self)
                    d = rec._depth.get(key, 0)
                    rec._depth[key] = d + 1
                    try:
                        status = orig(self, energy, *a, **kw)
                    finally:
                        rec._depth[key] = d
                    if d == 0:
                        rec.events.append(dict(t="ctrl", ctrl=self, meth=name, energy=energy,
                                               status=status))
                    return status
                return wrapper
            setattr(cls, name, make(orig, name))
    base._vf_wrapped = True


def attach_linesearch_monitor(rec):
    import nifty.cl as ift
    LS = ift.LineSearch
    if getattr(LS, "_vf_wrapped", False):
        return
    orig_p = LS.perform_line_search
    orig_z = LS._zoom

    @functools.wraps(orig_p)
    def perform_line_search(self, energy, pk, f_k_minus_1=None):
        if not rec.active:
            return orig_p(self, energy, pk, f_k_minus_1)
        ev = dict(t="ls", ls=self, energy=energy, pk=pk, fkm1=f_k_minus_1, zoom=0, out=None,
                  exc=None)
        rec.events.append(ev)
        stack = rec.__dict__.setdefault("_ls_stack", [])
        stack.append(ev)
        try:
            out = orig_p(self, energy, pk, f_k_minus_1)
        except BaseException as e:
            ev["exc"] = type(e).__name__
            raise
        finally:
            stack.pop()
        ev["out"] = out
        return out

    @functools.wraps(orig_z)
    def _zoom(self, *a, **kw):
        if rec.active:
            stack = rec.__dict__.get("_ls_stack") or []
            if stack:
                stack[-1]["zoom"] += 1
        return orig_z(self, *a, **kw)

    LS.perform_line_search = perform_line_search
    LS._zoom = _zoom
    LS._vf_wrapped = True


def attach_direction_monitor(rec):
    import nifty.cl as ift
    base = ift.DescentMinimizer
    if getattr(base, "_vf_dir_wrapped", False):
        return
    for cls in [base] + _all_subclasses(base):
        if "get_descent_direction" in cls.__dict__:
            orig = cls.__dict__["get_descent_direction"]

            def make(orig):
                @functools.wraps(orig)
                def wrapper(self, energy, *a, **kw):
                    p = orig(self, energy, *a, **kw)
                    if rec.active:
                        rec.events.append(dict(t="dir", mini=self, energy=energy, p=p))
                    return p
                return wrapper
            setattr(cls, "get_descent_direction", make(orig))
        if "reset" in cls.__dict__:
            orig_r = cls.__dict__["reset"]

            def make_r(orig_r):
                @functools.wraps(orig_r)
                def wrapper(self, *a, **kw):
                    if rec.active:
                        rec.events.append(dict(t="reset", mini=self))
                    return orig_r(self, *a, **kw)
                return wrapper
            setattr(cls, "reset", make_r(orig_r))
    base._vf_dir_wrapped = True


# --------------------------------------------------------- shadow controllers ---
def _le(iv, thr):
    """tri-state  iv <= thr   for an interval iv=(lo,hi) and an interval/number thr"""
    tlo, thi = thr if isinstance(thr, tuple) else (thr, thr)
    lo, hi = iv
    if np.isnan(lo) or np.isnan(hi) or np.isnan(tlo) or np.isnan(thi):
        return False          # comparisons with nan are False in the library as well
    if hi <= tlo:
        return True
    if lo > thi:
        return False
    return None


def _lt(iv, thr):
    tlo, thi = thr if isinstance(thr, tuple) else (thr, thr)
    lo, hi = iv
    if np.isnan(lo) or np.isnan(hi) or np.isnan(tlo) or np.isnan(thi):
        return False
    if hi < tlo:
        return True
    if lo >= thi:
        return False
    return None


def _pad(lo, hi, rel=1e-12):
    a = rel * max(abs(lo), abs(hi))
    return lo - a, hi + a


def _iv_absdiff(a, b):
    """interval of |x-y| for x in a, y in b"""
    lo = a[0] - b[1]
    hi = a[1] - b[0]
    if lo <= 0 <= hi:
        return 0.0, max(-lo, hi)
    return min(abs(lo), abs(hi)), max(abs(lo), abs(hi))


def _iv_abs(a):
    if a[0] <= 0 <= a[1]:
        return 0.0, max(-a[0], a[1])
    return min(abs(a[0]), abs(a[1])), max(abs(a[0]), abs(a[1]))


def _iv_div(num, den):
    """interval of num/den, num >= 0 interval, den >= 0 interval"""
    with np.errstate(all="ignore"):
        if den[0] <= 0:
            if den[1] <= 0:
                # 0/0 = nan, x/0 = inf  (numpy float semantics, as in the library)
                if num[1] <= 0:
                    return float("nan"), float("nan")
                if num[0] > 0:
                    return float("inf"), float("inf")
                return float("nan"), float("nan")
            return num[0] / den[1], float("inf")
        return num[0] / den[1], num[1] / den[0]


class ShadowController:
    """Independent re-implementation of the documented criteria of the four deterministic
    controller classes.  Quantities are intervals; ``feed`` returns CONVERGED / CONTINUE, or
    None if the decision depends on where inside the interval the library's own floating
    point value lies (tie) — after a tie the shadow stops judging."""

    def __init__(self, kind, tol_abs=None, tol_rel=None, tol=None, level=1, limit=None):
        self.kind, self.tol_abs, self.tol_rel, self.tol = kind, tol_abs, tol_rel, tol
        self.level, self.limit = level, limit
        self.tied = False

    def feed(self, meth, q):
        """q: dict(gn=(lo,hi), ginf=(lo,hi), E=(lo,hi))"""
        if self.tied:
            return None
        if meth == "start":
            self.it = -1
            self.cc = 0
            self.Eold = (0.0, 0.0)
            if self.kind == "gradnorm" and self.tol_rel is not None:
                self.tol_rel_now = (self.tol_rel * q["gn"][0], self.tol_rel * q["gn"][1])
        self.it += 1
        k = self.kind
        if k == "gradnorm":
            parts = []
            if self.tol_abs is not None:
                parts.append(_le(q["gn"], self.tol_abs))
            if self.tol_rel is not None:
                parts.append(_le(q["gn"], self.tol_rel_now))
            if any(p is True for p in parts):
                met = True
            elif any(p is None for p in parts):
                met = None
            else:
                met = False
        elif k == "gradinf":
            crit = _iv_div(q["ginf"], _iv_abs(q["E"]))
            met = _le(crit, self.tol) if self.tol is not None else False
        elif k in ("deltaE", "absdeltaE"):
            diff = _iv_absdiff(self.Eold, q["E"])
            if k == "deltaE":
                a, b = _iv_abs(self.Eold), _iv_abs(q["E"])
                den = (max(a[0], b[0]), max(a[1], b[1]))
                val = _iv_div(diff, den)
            else:
                val = diff
            met = _lt(val, self.tol) if self.it > 0 else False
            self.Eold = q["E"]
        else:
            raise ValueError(k)
        if self.limit is not None and self.it >= self.limit:
            # limit reached: CONVERGED irrespective of the criterion
            if met is None:
                self.tied = True
            else:
                self.cc = self.cc + 1 if met else max(0, self.cc - 1)
            return CONVERGED
        if met is None:
            self.tied = True
            return None
        self.cc = self.cc + 1 if met else max(0, self.cc - 1)
        return CONVERGED if self.cc >= self.level else CONTINUE


def make_controller(ift, spec):
    """spec: dict(kind, tol_abs, tol_rel, tol, level, limit) -> (NIFTy controller, shadow)"""
    k = spec["kind"]
    lvl, lim = spec.get("level", 1), spec.get("limit")
    if k == "gradnorm":
        ic = ift.GradientNormController(tol_abs_gradnorm=spec.get("tol_abs"),
                                        tol_rel_gradnorm=spec.get("tol_rel"),
                                        convergence_level=lvl, iteration_limit=lim)
    elif k == "gradinf":
        ic = ift.GradInfNormController(spec.get("tol"), convergence_level=lvl,
                                       iteration_limit=lim)
    elif k == "deltaE":
        ic = ift.DeltaEnergyController(spec.get("tol"), convergence_level=lvl,
                                       iteration_limit=lim)
    elif k == "absdeltaE":
        ic = ift.AbsDeltaEnergyController(spec.get("tol"), convergence_level=lvl,
                                          iteration_limit=lim)
    else:
        raise ValueError(k)
    sh = ShadowController(k, tol_abs=spec.get("tol_abs"), tol_rel=spec.get("tol_rel"),
                          tol=spec.get("tol"), level=lvl, limit=lim)
    return ic, sh


# ------------------------------------------------------------ scripted noise ---
class ScriptedNormal:
    """Replacement for ``nifty.cl.random.Random.normal``: the k-th requested real number is
    ``mean + std * script[k]`` (complex requests consume 2*size numbers: all real parts, then
    all imaginary parts, exactly like the library).  Argument validation is delegated to the
    original function (called with an empty shape)."""

    def __init__(self):
        self.installed = False
        self.script = None
        self.pos = 0
        self.requests = []

    def install(self):
        import nifty.cl.random as nr
        if self.installed:
            return
        self._cls = nr.Random
        self._orig = nr.Random.__dict__["normal"]
        orig = nr.Random.normal
        me = self

        def normal(dtype, shape, mean=0., std=1.):
            orig(dtype, (), mean, std)       # the library's own argument checks
            n = int(np.prod(shape, dtype=np.int64)) if shape != () else 1
            cplx = np.issubdtype(dtype, np.complexfloating)
            need = 2 * n if cplx else n
            me.requests.append((np.dtype(dtype).name, tuple(shape), need))
            if me.script is None:
                z = np.zeros(need)
            else:
                z = np.zeros(need)
                avail = me.script[me.pos:me.pos + need]
                z[:len(avail)] = avail
            me.pos += need
            if cplx:
                x = np.empty(shape, dtype=dtype)
                x.real = (np.real(mean) + std * z[:n]).reshape(shape)
                x.imag = (np.imag(mean) + std * z[n:]).reshape(shape)
                return x
            return (mean + std * z).reshape(shape).astype(dtype, copy=False)

        nr.Random.normal = staticmethod(normal)
        self.installed = True

    def uninstall(self):
        if self.installed:
            setattr(self._cls, "normal", self._orig)
            self.installed = False

    def run(self, script, fn):
        """run fn() with the given script (None = all zeros); returns (result, n consumed)"""
        self.script = None if script is None else np.asarray(script, dtype=np.float64)
        self.pos = 0
        self.requests = []
        self.install()
        try:
            res = fn()
        finally:
            self.uninstall()
        return res, self.pos


# ------------------------------------------------------- real-representation ---
class Layout:
    """real coordinates of Fields / MultiFields with a per-key complex flag: a complex key
    contributes [Re, Im], a real key only its values (keys in domain order)"""

    def __init__(self, dom, cplx=False):
        import nifty.cl as ift
        self.dom = dom
        self.multi = isinstance(dom, ift.MultiDomain)
        if self.multi:
            self.keys = list(dom.keys())
            self.cplx = {k: (cplx[k] if isinstance(cplx, dict) else bool(cplx)) for k in self.keys}
            self.sizes = {k: dom[k].size for k in self.keys}
            self.size = sum(self.sizes[k] * (2 if self.cplx[k] else 1) for k in self.keys)
        else:
            self.cplx = bool(cplx)
            self.size = dom.size * (2 if self.cplx else 1)

    @staticmethod
    def _part(a, cplx, project=False):
        a = np.asarray(a).reshape(-1)
        if cplx:
            return np.concatenate([a.real, a.imag]).astype(np.float64)
        if np.iscomplexobj(a):
            if not project and \
                    np.max(np.abs(a.imag), initial=0.0) > 1e-12 * max(np.max(np.abs(a), initial=0.0), 1e-300):
                raise ValueError("complex values in a real layout")
            a = a.real
        return a.astype(np.float64)

    def to_vec(self, f, project=False):
        """project=True: a complex value on a real key is orthogonally projected onto the real axis (the
        gradient / metric action w.r.t. real parameters is the real part of the complex cotangent)"""
        if self.multi:
            return np.concatenate([self._part(f[k].asnumpy(), self.cplx[k], project) for k in self.keys])
        return self._part(f.asnumpy(), self.cplx, project)

    def from_vec(self, v):
        import nifty.cl as ift
        v = np.asarray(v, dtype=np.float64)
        if not self.multi:
            n = self.dom.size
            z = v[:n] + 1j * v[n:] if self.cplx else v[:n].copy()
            return ift.makeField(self.dom, z.reshape(self.dom.shape))
        d, o = {}, 0
        for k in self.keys:
            n = self.sizes[k]
            if self.cplx[k]:
                z = v[o:o + n] + 1j * v[o + n:o + 2 * n]
                o += 2 * n
            else:
                z = v[o:o + n].copy()
                o += n
            d[k] = ift.makeField(self.dom[k], z.reshape(self.dom[k].shape))
        return ift.MultiField.from_dict(d, self.dom)


def dense_map(fn, lin, lout, project=False):
    """real matrix of the (real-)linear map fn between two Layouts"""
    M = np.zeros((lout.size, lin.size))
    for j in range(lin.size):
        e = np.zeros(lin.size)
        e[j] = 1.0
        M[:, j] = lout.to_vec(fn(lin.from_vec(e)), project)
    return M
