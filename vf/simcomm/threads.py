"""Thread back-end of the recording communicator with a controlled scheduler.

Each rank runs the code under test in its own thread.  Every communicator call
parks the calling thread and posts a *request*; the scheduler (the calling
thread of ``Explorer.run``) waits until every live rank is parked or finished,
computes the set of enabled transitions under the strictest legal MPI
semantics

  * point-to-point: a ``send``/``Send`` completes only in a rendezvous with the
    matching ``recv``/``Recv`` posted by the destination (MPI_Ssend semantics,
    non-overtaking per (source, dest) pair — automatic, since every rank has at
    most one outstanding blocking call);
  * collectives (``allgather``, ``allreduce``, ``bcast``, ``Bcast``,
    ``Barrier``): complete only when *all* ranks have posted the same
    collective (same kind, same root);

and fires one of them.  ``Explorer.explore`` enumerates all scheduling choices
by depth-first search with replay from the start and memoisation on the vector
of per-rank program counters (number of completed communicator calls): the
ranks are deterministic, so that vector determines the global state.

A reachable state with an unfinished rank and no enabled transition is a
deadlock.  All events are recorded.
"""
import pickle
import threading

import numpy as np


class Abort(BaseException):
    """raised inside rank threads to unwind an abandoned run"""


class ProtocolError(Exception):
    pass


class _Req:
    __slots__ = ("kind", "rank", "peer", "root", "payload", "buf", "result", "error")

    def __init__(self, kind, rank, peer=None, root=None, payload=None, buf=None):
        self.kind, self.rank, self.peer, self.root = kind, rank, peer, root
        self.payload, self.buf = payload, buf
        self.result = None
        self.error = None


COLLECTIVES = ("allgather", "allreduce", "bcast", "Bcast", "Barrier")


class ThreadComm:
    """The communicator object handed to one rank (11-method mpi4py subset)."""

    def __init__(self, world, rank):
        self._w, self._rank = world, rank

    def Get_rank(self):
        return self._rank

    def Get_size(self):
        return self._w.size

    # -- point to point ---------------------------------------------------
    def send(self, obj, dest, tag=0):
        self._w.block(_Req("send", self._rank, peer=dest, payload=pickle.dumps(obj)))

    def recv(self, buf=None, source=0, tag=0, status=None):
        return self._w.block(_Req("recv", self._rank, peer=source))

    def Send(self, buf, dest, tag=0):
        a = np.asarray(buf)
        self._w.block(_Req("Send", self._rank, peer=dest, payload=a.copy()))

    def Recv(self, buf, source=0, tag=0, status=None):
        self._w.block(_Req("Recv", self._rank, peer=source, buf=buf))

    # -- collectives --------------------------------------------------------
    def allgather(self, obj):
        return self._w.block(_Req("allgather", self._rank, payload=pickle.dumps(obj)))

    def allreduce(self, obj, op=None):
        return self._w.block(_Req("allreduce", self._rank, payload=pickle.dumps(obj)))

    def bcast(self, obj, root=0):
        return self._w.block(_Req("bcast", self._rank, root=root, payload=pickle.dumps(obj)))

    def Bcast(self, buf, root=0):
        self._w.block(_Req("Bcast", self._rank, root=root, buf=buf))

    def Barrier(self):
        self._w.block(_Req("Barrier", self._rank))


class World:
    """one execution: k rank threads + scheduler state"""

    def __init__(self, size):
        self.size = size
        self.cv = threading.Condition()
        self.pending = [None] * size     # posted request per rank
        self.finished = [False] * size
        self.results = [None] * size
        self.errors = [None] * size
        self.pc = [0] * size
        self.abort = False
        self.events = []

    # called from rank threads
    def block(self, req):
        with self.cv:
            if self.abort:
                raise Abort()
            self.pending[req.rank] = req
            self.events.append(("post", req.rank, req.kind, req.peer if req.peer is not None
                                else req.root))
            self.cv.notify_all()
            while self.pending[req.rank] is req and not self.abort:
                self.cv.wait()
            if self.abort and self.pending[req.rank] is req:
                raise Abort()
        if req.error is not None:
            raise req.error
        return req.result

    def _rank_main(self, rank, fn):
        try:
            res = fn(ThreadComm(self, rank), rank)
            with self.cv:
                self.results[rank] = res
        except Abort:
            pass
        except BaseException as e:  # noqa
            with self.cv:
                self.errors[rank] = e
        finally:
            with self.cv:
                self.finished[rank] = True
                self.cv.notify_all()

    def start(self, fn):
        self.threads = [threading.Thread(target=self._rank_main, args=(r, fn), daemon=True)
                        for r in range(self.size)]
        for t in self.threads:
            t.start()

    def wait_quiescent(self, timeout=30.0):
        """until every rank is parked in a request or finished"""
        with self.cv:
            ok = self.cv.wait_for(
                lambda: all(self.finished[r] or self.pending[r] is not None
                            for r in range(self.size)), timeout)
        return ok

    def enabled(self):
        """list of transitions: ('p2p', src, dst) / ('coll', kind) ; plus protocol errors"""
        trans, perr = [], []
        live = [r for r in range(self.size) if not self.finished[r]]
        reqs = {r: self.pending[r] for r in live}
        for r, q in sorted(reqs.items()):
            if q.kind in ("send", "Send"):
                d = q.peer
                if d in reqs and reqs[d].kind in ("recv", "Recv") and reqs[d].peer == r:
                    want = "recv" if q.kind == "send" else "Recv"
                    if reqs[d].kind != want:
                        perr.append(f"rank {r} posts {q.kind} but rank {d} waits in {reqs[d].kind}")
                    else:
                        trans.append(("p2p", r, d))
                elif not (0 <= d < self.size):
                    perr.append(f"rank {r} sends to invalid rank {d}")
        colls = [q for q in reqs.values() if q.kind in COLLECTIVES]
        if colls and len(colls) == self.size and len(live) == self.size:
            kinds = {(q.kind, q.root) for q in colls}
            if len(kinds) == 1:
                trans.append(("coll", colls[0].kind))
            else:
                perr.append(f"ranks are in different collectives: {sorted(map(str, kinds))}")
        return trans, perr

    def fire(self, tr):
        with self.cv:
            self.events.append(("fire",) + tuple(tr))
            if tr[0] == "p2p":
                _, s, d = tr
                qs, qd = self.pending[s], self.pending[d]
                if qs.kind == "send":
                    qd.result = pickle.loads(qs.payload)
                else:
                    try:
                        dst = np.asarray(qd.buf)
                        if dst.shape != qs.payload.shape or dst.dtype != qs.payload.dtype:
                            raise ProtocolError(
                                f"Recv buffer {dst.shape}/{dst.dtype} does not match Send "
                                f"{qs.payload.shape}/{qs.payload.dtype}")
                        dst[...] = qs.payload
                    except Exception as e:  # noqa
                        qd.error = e
                self.pending[s] = None
                self.pending[d] = None
                self.pc[s] += 1
                self.pc[d] += 1
            else:
                kind = tr[1]
                qs = [self.pending[r] for r in range(self.size)]
                if kind == "allgather":
                    objs = [pickle.loads(q.payload) for q in qs]
                    for q in qs:
                        q.result = [pickle.loads(pickle.dumps(o)) for o in objs]
                elif kind == "allreduce":
                    objs = [pickle.loads(q.payload) for q in qs]
                    tot = objs[0]
                    for o in objs[1:]:
                        tot = tot + o
                    for q in qs:
                        q.result = pickle.loads(pickle.dumps(tot))
                elif kind == "bcast":
                    root = qs[0].root
                    for q in qs:
                        q.result = pickle.loads(qs[root].payload)
                elif kind == "Bcast":
                    root = qs[0].root
                    src = np.asarray(qs[root].buf)
                    for q in qs:
                        if q.rank != root:
                            try:
                                dst = np.asarray(q.buf)
                                if dst.shape != src.shape or dst.dtype != src.dtype:
                                    raise ProtocolError("Bcast buffer mismatch")
                                dst[...] = src
                            except Exception as e:  # noqa
                                q.error = e
                for r in range(self.size):
                    self.pending[r] = None
                    self.pc[r] += 1
            self.cv.notify_all()

    def kill(self):
        with self.cv:
            self.abort = True
            self.cv.notify_all()
        for t in self.threads:
            t.join(timeout=10.0)


class Explorer:
    """exhaustive DFS over scheduler choices for fn(comm, rank) on ``size`` ranks"""

    def __init__(self, size, fn, max_runs=200000):
        self.size, self.fn, self.max_runs = size, fn, max_runs
        self.states = set()
        self.transitions = 0
        self.runs = 0
        self.complete_runs = []     # (results list, errors list)
        self.deadlocks = []         # (choices, pending description)
        self.protocol_errors = []
        self.rank_errors = []       # a rank raised; the others then wait forever
        self.stalled = False
        self.max_enabled = 0
        self.sample_trace = None
        self.truncated = False

    def _one(self, prefix):
        """run with the given choice prefix, then always choice 0.
        returns list of new prefixes to explore"""
        self.runs += 1
        w = World(self.size)
        w.start(self.fn)
        new, choices, step = [], [], 0
        try:
            while True:
                if not w.wait_quiescent():
                    self.stalled = True
                    return new
                if all(w.finished):
                    self.complete_runs.append((list(w.results), list(w.errors)))
                    if self.sample_trace is None:
                        self.sample_trace = [e for e in w.events if e[0] == "fire"]
                    return new
                trans, perr = w.enabled()
                if perr:
                    self.protocol_errors.append((list(choices), perr))
                    return new
                if not trans:
                    pend = {r: (w.pending[r].kind, w.pending[r].peer if w.pending[r].peer
                                is not None else w.pending[r].root)
                            for r in range(self.size) if not w.finished[r]}
                    errs = {r: repr(w.errors[r]) for r in range(self.size)
                            if w.errors[r] is not None}
                    if errs:
                        self.rank_errors.append((list(choices), errs))
                    else:
                        self.deadlocks.append((list(choices), pend))
                    return new
                self.max_enabled = max(self.max_enabled, len(trans))
                if step < len(prefix):
                    c = prefix[step]
                else:
                    key = tuple(w.pc) + tuple(w.finished)
                    if key in self.states:
                        return new          # state already expanded elsewhere
                    self.states.add(key)
                    for alt in range(1, len(trans)):
                        new.append(choices + [alt])
                    c = 0
                choices.append(c)
                self.transitions += 1
                w.fire(trans[c])
                step += 1
        finally:
            w.kill()

    def explore(self):
        stack = [[]]
        while stack:
            if self.runs >= self.max_runs:
                self.truncated = True
                break
            prefix = stack.pop()
            stack.extend(self._one(prefix))
        return self
