"""Workloads executed on every rank of a simulated MPI world (C22, C26).
Each returns a picklable dict of canonical byte strings / scalars; the driver compares
them bit-wise against the single-process (comm=None) reference."""
import hashlib
import os
import struct

import numpy as np


def _ift():
    import nifty.cl as ift
    return ift


def fb(x):
    from vf.clgen import fbytes
    return hashlib.sha256(fbytes(x)).hexdigest()


def fl(x):
    return struct.pack("<d", float(x)).hex()


def model(ift, params):
    rng = np.random.default_rng(params.get("model_seed", 3))
    dom = ift.RGSpace(4)
    A = ift.FieldAdapter(dom, "a")
    B = ift.FieldAdapter(dom, "b")
    sig = A * B.ptw("exp") + A
    if params.get("three_keys"):
        C = ift.FieldAdapter(dom, "c")
        sig = sig + C.ptw("tanh")
    data = ift.makeField(dom, rng.standard_normal(4))
    lh = ift.GaussianEnergy(data=data, inverse_covariance=ift.ScalingOperator(dom, 3.0, np.float64)) @ sig
    keys = ["a", "b"] + (["c"] if params.get("three_keys") else [])
    pos = ift.MultiField.from_dict({k: ift.makeField(dom, rng.standard_normal(4) * 0.2) for k in keys})
    x = ift.MultiField.from_dict({k: ift.makeField(dom, rng.standard_normal(4)) for k in keys})
    return dom, sig, lh, pos, x


def kl(comm, params, rank):
    """SampledKLEnergy: value, gradient, metric, samples, statistics"""
    ift = _ift()
    ift.random.push_sseq_from_seed(params.get("seed", 11))
    dom, sig, lh, pos, x = model(ift, params)
    ham = ift.StandardHamiltonian(lh, ift.AbsDeltaEnergyController(1e-6, iteration_limit=12),
                                  prior_sampling_dtype=np.float64)
    nl = None
    if params.get("geovi"):
        nl = ift.NewtonCG(ift.AbsDeltaEnergyController(1e-4, iteration_limit=2))
    consts = params.get("constants", [])
    pes = params.get("point_estimates", [])
    e = ift.SampledKLEnergy(pos, ham, params.get("n_samples", 2), nl,
                            mirror_samples=params.get("mirror", True), constants=consts,
                            point_estimates=pes, comm=comm)
    out = {}
    out["value"] = fl(e.value)
    out["gradient"] = fb(e.gradient)
    xx = x.extract(e.position.domain)
    out["metric_x"] = fb(e.apply_metric(xx))
    sl = e.samples
    out["n_samples"] = sl.n_samples
    out["n_local"] = sl.n_local_samples          # informational (differs by design)
    out["samples"] = [fb(s) for s in sl.iterator()]
    out["average"] = fb(sl.average())
    m, v = sl.sample_stat(sig)
    out["stat_mean"], out["stat_var"] = fb(m), fb(v)
    out["average_op"] = fb(sl.average(sig))
    # one minimisation step with the KL energy
    mini = ift.NewtonCG(ift.AbsDeltaEnergyController(1e-3, iteration_limit=2))
    e2, _ = mini(e)
    out["min_position"] = fb(e2.position)
    out["min_value"] = fl(e2.value)
    ift.random.pop_sseq()
    return out


def okl(comm, params, rank):
    """full optimize_kl run"""
    ift = _ift()
    dom, sig, lh, pos, x = model(ift, params)
    nsl = params.get("n_samples", 2)
    ns = (lambda i: nsl[min(i, len(nsl) - 1)]) if isinstance(nsl, list) else nsl
    nl = None
    if params.get("geovi"):
        nl = ift.NewtonCG(ift.AbsDeltaEnergyController(1e-4, iteration_limit=2))
    odir = params.get("odir")
    with ift.random.Context(params.get("seed", 11)):
        sl, mean = ift.optimize_kl(
            lh, params.get("n_iter", 2), ns,
            ift.NewtonCG(ift.AbsDeltaEnergyController(1e-3, iteration_limit=3)),
            ift.AbsDeltaEnergyController(1e-6, iteration_limit=12),
            nonlinear_sampling_minimizer=nl, initial_position=pos,
            constants=params.get("constants", []), point_estimates=params.get("point_estimates", []),
            output_directory=odir, comm=comm, plot_energy_history=False, plot_minisanity_history=False,
            save_strategy=params.get("save_strategy", "latest"), return_final_position=True,
            export_operator_outputs=({"sig": sig} if params.get("export") else {}))
    out = dict(mean=fb(mean), n_samples=sl.n_samples, samples=[fb(s) for s in sl.iterator()],
               average=fb(sl.average()), list_type=type(sl).__name__)
    if comm is not None:
        comm.Barrier()
    if odir is not None:
        files = {}
        for root, _, fs in os.walk(odir):
            for f in fs:
                p = os.path.join(root, f)
                rel = os.path.relpath(p, odir)
                if rel.endswith((".txt",)) or "random_state" in rel:
                    files[rel] = "present"      # contains timestamps / task reports
                elif rel.endswith(".hdf5"):
                    import h5py
                    h = hashlib.sha256()
                    with h5py.File(p, "r") as hf:
                        def visit(name, obj):
                            if hasattr(obj, "shape"):
                                h.update(name.encode())
                                h.update(np.ascontiguousarray(obj[()]).tobytes())
                        hf.visititems(visit)
                    files[rel] = h.hexdigest()
                elif rel.endswith(".pickle") and "history" not in rel:
                    import pickle
                    with open(p, "rb") as fh:
                        obj = pickle.load(fh)
                    if isinstance(obj, list):
                        files[rel] = [fb(obj[0]), bool(obj[1])]
                    else:
                        files[rel] = fb(obj)
                else:
                    files[rel] = "present"
        out["files"] = files
    return out


# ------------------------------------------------------------------ C26 ------
def make_samples(ift, spec):
    """deterministic sample values from the spec (same on every rank)"""
    rng = np.random.default_rng(spec["vseed"])
    if spec["multi"]:
        doms = {"a": ift.DomainTuple.make(ift.RGSpace(3)), "b": ift.DomainTuple.make(ift.UnstructuredDomain(2))}
        mk = lambda: ift.MultiField.from_dict(  # noqa
            {k: ift.makeField(d, rng.standard_normal(d.shape) * spec.get("scale", 1.0) + spec.get("offset", 0.0))
             for k, d in doms.items()})
    else:
        d = ift.DomainTuple.make((ift.RGSpace(2), ift.UnstructuredDomain(2)))
        mk = lambda: ift.makeField(d, rng.standard_normal(d.shape) * spec.get("scale", 1.0)  # noqa
                                   + spec.get("offset", 0.0))
    mean = mk()
    items = [mk() for _ in range(spec["n"])]
    neg = [bool(rng.integers(0, 2)) for _ in range(spec["n"])]
    return mean, items, neg


def sl_op(comm, params, rank):
    """one sample-list operation of a C26 history, executed collectively on `comm`"""
    ift = _ift()
    from nifty.cl.utilities import shareRange, get_MPI_params_from_comm
    op = params["op"]
    base = params["base"]
    out = dict(op=op["kind"])
    ntask, rk, _ = get_MPI_params_from_comm(comm)
    try:
        if op["kind"] in ("save_plain", "save_residual"):
            mean, items, neg = make_samples(ift, op)
            lo, hi = shareRange(op["n"], ntask, rk)
            if op["kind"] == "save_plain":
                dom = mean.domain
                sl = ift.SampleList(items[lo:hi], comm=comm, domain=dom)
            else:
                sl = ift.ResidualSampleList(mean, items[lo:hi], neg[lo:hi], comm=comm)
            sl.save(base, overwrite=op["overwrite"])
            out["saved"] = [fb(s) for s in sl.iterator()]
            out["n"] = sl.n_samples
        elif op["kind"] in ("load_plain", "load_residual"):
            cls = ift.SampleList if op["kind"] == "load_plain" else ift.ResidualSampleList
            sl = cls.load(base, comm=comm)
            out["loaded"] = [fb(s) for s in sl.iterator()]
            out["n"] = sl.n_samples
            if op["kind"] == "load_residual":
                out["mean"] = fb(sl.mean)
            if sl.n_samples > 0:
                out["average"] = fb(sl.average())
                m, v = sl.sample_stat()
                out["stat_mean"], out["stat_var"] = fb(m), fb(v)
                out["stat_mean_raw"] = _raw(m)
                out["stat_var_raw"] = _raw(v)
                out["raw"] = [_raw(s) for s in sl.iterator()]
        out["ok"] = True
    except Exception as e:  # noqa
        out["ok"] = False
        out["error"] = f"{type(e).__name__}: {str(e)[:200]}"
    return out


def _raw(f):
    ift = _ift()
    if isinstance(f, ift.MultiField):
        return {k: np.asarray(f[k].asnumpy()).tolist() for k in sorted(f.keys())}
    return np.asarray(f.asnumpy()).tolist()


RUN = {"kl": kl, "okl": okl, "sl_op": sl_op}
