"""Rank process:  python -m vf.simcomm.rank spec.json"""
import importlib
import json
import pickle
import sys
import traceback


def main():
    spec = json.load(open(sys.argv[1]))
    from vf.simcomm import proc
    proc.install_mpi_stub()
    comm = None
    if spec["size"] >= 1:
        comm = proc.make_comm(spec["rank"], spec["size"], spec["address"])
    mod = importlib.import_module(spec["module"])
    status = "ok"
    try:
        res = mod.RUN[spec["workload"]](comm, spec["params"], spec["rank"])
        out = dict(ok=True, result=res)
    except BaseException as e:  # noqa
        status = "error"
        out = dict(ok=False, error=f"{type(e).__name__}: {e}", tb=traceback.format_exc()[-3000:])
    if comm is not None:
        out["ncalls"] = comm.ncalls
        try:
            comm._finish(status)
        except Exception:
            pass
    with open(spec["out"] + ".tmp", "wb") as f:
        pickle.dump(out, f)
    import os
    os.replace(spec["out"] + ".tmp", spec["out"])
    sys.exit(0 if status == "ok" else 1)


if __name__ == "__main__":
    main()
