"""Process back-end of the recording communicator (DESIGN §3.5).

Each rank is a separate interpreter process (ranks must not share NIFTy's
module-level RNG state).  A router thread in the driving process matches
point-to-point messages by rendezvous (a ``send`` returns only after the
matching ``recv`` was posted — MPI_Ssend semantics), completes collectives only
when *all* ranks have posted the same collective with the same root, logs every
event with a global sequence number, and detects deadlock logically (every live
rank blocked, nothing enabled) instead of by timeout.

The communicator implements exactly the 11 methods NIFTy uses:
Get_rank, Get_size, send, recv, Send, Recv, bcast, Bcast, allgather, allreduce, Barrier.
"""
import json
import os
import pickle
import subprocess
import sys
import tempfile
import threading
import time
from multiprocessing.connection import Client, Listener, wait

import numpy as np

PY = "/venv/bin/python"
COLLECTIVES = ("allgather", "allreduce", "bcast", "Bcast", "Barrier")


def install_mpi_stub():
    """mpi4py cannot load libmpi in this sandbox; NIFTy's sanity check only needs the
    name mpi4py.MPI.Intracomm for an isinstance test."""
    import types
    if "mpi4py.MPI" in sys.modules and hasattr(sys.modules["mpi4py.MPI"], "Intracomm"):
        return sys.modules["mpi4py.MPI"].Intracomm
    m = types.ModuleType("mpi4py")
    mm = types.ModuleType("mpi4py.MPI")

    class Intracomm:
        pass
    mm.Intracomm = Intracomm
    m.MPI = mm
    sys.modules["mpi4py"] = m
    sys.modules["mpi4py.MPI"] = mm
    return Intracomm


class CommError(RuntimeError):
    pass


def make_comm(rank, size, address, authkey=b"vf"):
    Intracomm = install_mpi_stub()
    conn = Client(address, authkey=authkey)
    conn.send(dict(kind="hello", rank=rank))

    class ProcComm(Intracomm):
        def __init__(self):
            self._rank, self._size, self._conn = rank, size, conn
            self.ncalls = 0

        def _call(self, **req):
            self.ncalls += 1
            req["rank"] = self._rank
            self._conn.send(req)
            rep = self._conn.recv()
            if rep.get("error"):
                raise CommError(rep["error"])
            return rep.get("result")

        def Get_rank(self):
            return self._rank

        def Get_size(self):
            return self._size

        def send(self, obj, dest, tag=0):
            self._call(kind="send", peer=dest, payload=pickle.dumps(obj))

        def recv(self, buf=None, source=0, tag=0, status=None):
            return pickle.loads(self._call(kind="recv", peer=source))

        def Send(self, buf, dest, tag=0):
            self._call(kind="Send", peer=dest, payload=pickle.dumps(np.ascontiguousarray(np.asarray(buf))))

        def Recv(self, buf, source=0, tag=0, status=None):
            a = pickle.loads(self._call(kind="Recv", peer=source))
            dst = np.asarray(buf)
            if dst.shape != a.shape or dst.dtype != a.dtype:
                raise CommError(f"Recv buffer {dst.shape}/{dst.dtype} != sent {a.shape}/{a.dtype}")
            dst[...] = a

        def allgather(self, obj):
            return [pickle.loads(x) for x in self._call(kind="allgather", payload=pickle.dumps(obj))]

        def allreduce(self, obj, op=None):
            parts = [pickle.loads(x) for x in self._call(kind="allreduce", payload=pickle.dumps(obj))]
            tot = parts[0]
            for p in parts[1:]:
                tot = tot + p
            return tot

        def bcast(self, obj, root=0):
            return pickle.loads(self._call(kind="bcast", root=root,
                                           payload=pickle.dumps(obj) if self._rank == root else None))

        def Bcast(self, buf, root=0):
            a = self._call(kind="Bcast", root=root,
                           payload=pickle.dumps(np.ascontiguousarray(np.asarray(buf)))
                           if self._rank == root else None)
            if self._rank != root:
                a = pickle.loads(a)
                dst = np.asarray(buf)
                if dst.shape != a.shape or dst.dtype != a.dtype:
                    raise CommError("Bcast buffer mismatch")
                dst[...] = a

        def Barrier(self):
            self._call(kind="Barrier")

        def _finish(self, status):
            self._conn.send(dict(kind="exit", rank=self._rank, status=status))

    return ProcComm()


class Router(threading.Thread):
    def __init__(self, size, address, authkey=b"vf"):
        super().__init__(daemon=True)
        self.size = size
        self.listener = Listener(address, authkey=authkey)
        self.events = []          # (seq, what, ...)
        self.problems = []        # protocol problems (strings)
        self.deadlock = None
        self.finished = {}
        self.stop = False
        self.n_p2p = 0
        self.n_coll = 0

    def log(self, *ev):
        self.events.append((len(self.events),) + ev)

    def run(self):
        conns = {}
        try:
            self.listener._listener._socket.settimeout(120.0)
        except Exception:
            pass
        try:
            while len(conns) < self.size:
                c = self.listener.accept()
                hello = c.recv()
                conns[hello["rank"]] = c
        except Exception as e:  # noqa
            self.problems.append(f"router: ranks did not connect: {e!r}")
            return
        pending = {}
        live = set(range(self.size))
        by_conn = {id(c): r for r, c in conns.items()}
        while live and not self.stop:
            ready = wait([conns[r] for r in live if r not in pending], timeout=0.5)
            for c in ready:
                r = by_conn[id(c)]
                try:
                    req = c.recv()
                except (EOFError, OSError):
                    live.discard(r)
                    self.finished.setdefault(r, "died")
                    self.log("died", r)
                    continue
                if req["kind"] == "exit":
                    live.discard(r)
                    self.finished[r] = req.get("status", "ok")
                    self.log("exit", r, req.get("status"))
                    continue
                pending[r] = req
                self.log("post", r, req["kind"], req.get("peer", req.get("root")))
            # fire everything enabled
            progress = True
            while progress:
                progress = False
                for r in sorted(pending):
                    q = pending.get(r)
                    if q is None or q["kind"] not in ("send", "Send"):
                        continue
                    d = q["peer"]
                    qd = pending.get(d)
                    if qd is not None and qd["kind"] in ("recv", "Recv") and qd["peer"] == r:
                        want = "recv" if q["kind"] == "send" else "Recv"
                        if qd["kind"] != want:
                            msg = f"rank {r} posts {q['kind']} but rank {d} waits in {qd['kind']}"
                            self.problems.append(msg)
                            conns[r].send(dict(error=msg))
                            conns[d].send(dict(error=msg))
                        else:
                            conns[d].send(dict(result=q["payload"]))
                            conns[r].send(dict(result=None))
                            self.n_p2p += 1
                            self.log("p2p", r, d, q["kind"], len(q["payload"]))
                        del pending[r], pending[d]
                        progress = True
                colls = {r: q for r, q in pending.items() if q["kind"] in COLLECTIVES}
                if len(colls) == self.size and len(live) == self.size:
                    kinds = {(q["kind"], q.get("root")) for q in colls.values()}
                    if len(kinds) != 1:
                        msg = f"ranks are in different collectives: {sorted(map(str, kinds))}"
                        self.problems.append(msg)
                        for r in colls:
                            conns[r].send(dict(error=msg))
                    else:
                        kind, root = next(iter(kinds))
                        if kind in ("allgather", "allreduce"):
                            res = [colls[r]["payload"] for r in range(self.size)]
                            for r in colls:
                                conns[r].send(dict(result=res))
                        elif kind in ("bcast", "Bcast"):
                            for r in colls:
                                conns[r].send(dict(result=colls[root]["payload"]))
                        else:
                            for r in colls:
                                conns[r].send(dict(result=None))
                        self.n_coll += 1
                        self.log("coll", kind, root)
                    for r in list(colls):
                        del pending[r]
                    progress = True
            # logical deadlock detection: all live ranks blocked, nothing enabled
            if live and all(r in pending for r in live):
                desc = {r: (pending[r]["kind"], pending[r].get("peer", pending[r].get("root"))) for r in live}
                self.deadlock = dict(pending=desc, finished=dict(self.finished))
                self.log("deadlock", json.dumps(desc, default=str))
                for r in live:
                    try:
                        conns[r].send(dict(error=f"deadlock detected by router: {desc}"))
                    except Exception:
                        pass
                    del pending[r]
        for c in conns.values():
            try:
                c.close()
            except Exception:
                pass
        try:
            self.listener.close()
        except Exception:
            pass


def run_world(size, workload, params, workdir, timeout=300, env=None, module="vf.simcomm.workloads"):
    """run ``workload`` on ``size`` ranks (size 0: one process with comm=None).
    returns dict(results=[per rank result or None], rc=[...], stderr=[...], router=...)"""
    os.makedirs(workdir, exist_ok=True)
    n = max(size, 1)
    address = None
    router = None
    if size >= 1:
        address = os.path.join(tempfile.mkdtemp(prefix="vfsock_", dir="/tmp"), "s")
        router = Router(size, address)
        router.start()
    procs = []
    outs = []
    e = dict(os.environ if env is None else env)
    root = os.path.dirname(os.path.dirname(os.path.dirname(os.path.abspath(__file__))))
    for r in range(n):
        out = os.path.join(workdir, f"rank{r}.pkl")
        if os.path.exists(out):
            os.remove(out)
        outs.append(out)
        spec = dict(workload=workload, params=params, size=size, rank=r, address=address, out=out, module=module)
        sp = os.path.join(workdir, f"spec{r}.json")
        with open(sp, "w") as f:
            json.dump(spec, f)
        procs.append(subprocess.Popen([PY, "-B", "-m", "vf.simcomm.rank", sp], cwd=root, env=e,
                                      stdout=subprocess.PIPE, stderr=subprocess.PIPE, text=True))
    t0 = time.time()
    rcs, errs = [], []
    timed_out = False
    for p in procs:
        try:
            _, err = p.communicate(timeout=max(1.0, timeout - (time.time() - t0)))
        except subprocess.TimeoutExpired:
            p.kill()
            _, err = p.communicate()
            timed_out = True
        rcs.append(p.returncode)
        errs.append((err or "")[-2000:])
    if router is not None:
        router.stop = True
        router.join(timeout=10)
        try:
            os.remove(address)
        except OSError:
            pass
        try:
            os.rmdir(os.path.dirname(address))
        except OSError:
            pass
    results = []
    for out in outs:
        if os.path.exists(out):
            with open(out, "rb") as f:
                results.append(pickle.load(f))
            os.remove(out)
        else:
            results.append(None)
    rinfo = None
    if router is not None:
        rinfo = dict(problems=router.problems, deadlock=router.deadlock, n_p2p=router.n_p2p,
                     n_coll=router.n_coll, n_events=len(router.events), finished=router.finished,
                     tail=[list(map(str, ev)) for ev in router.events[-12:]])
    return dict(results=results, rc=rcs, stderr=errs, router=rinfo, timed_out=timed_out)
